#!/usr/bin/env python3
"""Regenerates MANIFEST.json from claims.json (per-property claim texts) and properties.jsonl."""
import json, subprocess
props = [json.loads(l)["id"] for l in open("/verif/properties.jsonl")]
claims = json.load(open("/verif/claims.json"))
commits = subprocess.run(["git", "-C", "/repo", "log", "--format=%h %s"], capture_output=True, text=True).stdout.splitlines()
hook_commits = [c.split()[0] for c in commits if c.split(" ", 1)[1].startswith("verif:")]
checks, na = [], []
for p in props:
    c = claims.get(p)
    if not c or not c.get("claimed"):
        na.append({"property_id": p, "reason": (c or {}).get("reason", "check under construction: not registered until all its obligations discharge on the unchanged tree and its must-fail mutants are caught (DESIGN section 11)")})
        continue
    checks.append({
        "property_id": p,
        "quick_cmd": f"./check {p} quick",
        "thorough_cmd": f"./check {p} thorough",
        "evidence_file": f"/verif/evidence/{p}.json",
        "replay_cmd_template": f"./check {p} --replay {{path}}",
        "engine": "govc",
        "level_claimed": {"category": "proof", "text": c["text"], "design_ref": c.get("design_ref", "DESIGN.md section 6 " + p)},
        "level_note": c["note"],
        "technique": c.get("technique", "contract-based deductive verification: VCs generated from go/ssa of the real functions against //@ contracts, discharged by z3/cvc5"),
    })
m = {
    "version": 1,
    "setup_cmd": "cd /verif/govc && GOFLAGS=-mod=vendor GOPROXY=off GOSUMDB=off GOTOOLCHAIN=local go build -o /verif/bin/govc .",
    "hooks": {"guard": "verif",
              "enable": "go/packages loads /repo with -tags=verif; the contracts are //@ comments in comment-only files <pkg>/zz_contracts_verif.go that start with //go:build verif (no executable hook code)",
              "baseline_off_cmd": "cd /repo && GOFLAGS=-mod=mod GOPROXY=off GOSUMDB=off go test -vet=off -count=1 ./...",
              "source_commits": hook_commits, "add_only": True},
    "engines": [{"name": "govc", "path": "/verif/govc", "serves_properties": [c["property_id"] for c in checks],
                 "kind_free_text": "contract-based deductive verifier for Go written for this task: verification conditions generated over go/ssa of the current tree against //@ contracts (requires/ensures/modifies/loop invariants/ghost event traces), discharged by z3 4.8.12, z3 5.1.0 and cvc5 1.0.3 raced per obligation; counterexamples replayed on the real code with go test -overlay"}],
    "checks": checks,
    "not_applicable": na,
    "notes": "DESIGN.md describes the approach; known_findings.json lists fixed defects; selftest/ holds the must-fail corpus (python3 selftest/run.py).",
}
json.dump(m, open("/verif/MANIFEST.json", "w"), indent=1)
print(len(checks), "checks,", len(na), "not applicable")
