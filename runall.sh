#!/bin/bash
# runs the quick command of every registered check and prints one summary line each (regression guard before commits)
cd /verif
for p in $(python3 -c "import json;print(' '.join(c['property_id'] for c in json.load(open('MANIFEST.json'))['checks']))"); do
  out=$(./check $p quick 2>&1); rc=$?
  echo "rc=$rc $(echo "$out" | tail -1)"
  if [ $rc -ne 0 ]; then echo "$out" | grep "failed obligation" | head -5 | cut -c1-200; fi
done
