#!/bin/bash
# runs the thorough command of every registered check (long: the byte-exact decoder clauses take tens of minutes)
cd /verif
for p in ${@:-$(python3 -c "import json;print(' '.join(c['property_id'] for c in json.load(open('MANIFEST.json'))['checks']))")}; do
  start=$(date +%s)
  out=$(./check $p thorough 2>&1); rc=$?
  echo "rc=$rc $(echo "$out" | tail -1) [$(( $(date +%s) - start )) s wall]"
  if [ $rc -ne 0 ]; then echo "$out" | grep "failed obligation" | head -8 | cut -c1-220; fi
done
