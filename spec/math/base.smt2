; Base definitions shared by every mathematical-reading VC.
(define-sort Idx () Int)
(define-fun gostr.equal ((a Str) (b Str)) Bool (= a b))
