; Affine maps of the plane as generate.Aff3 / mdicons stores them: six coefficients in row-major order,
;   x' = a0 x + a1 y + a2,   y' = a3 x + a4 y + a5          (real-number reading)
; include: base
(define-sort Aff () (Array Int Real))
(define-fun aff.x ((a Aff) (x Real) (y Real)) Real (+ (* x (select a 0)) (* y (select a 1)) (select a 2)))
(define-fun aff.y ((a Aff) (x Real) (y Real)) Real (+ (* x (select a 3)) (* y (select a 4)) (select a 5)))
(define-fun aff.mk ((c0 Real) (c1 Real) (c2 Real) (c3 Real) (c4 Real) (c5 Real)) Aff
  (store (store (store (store (store (store ((as const Aff) 0.0) 0 c0) 1 c1) 2 c2) 3 c3) 4 c4) 5 c5))
(define-fun aff.is ((a Aff) (c0 Real) (c1 Real) (c2 Real) (c3 Real) (c4 Real) (c5 Real)) Bool
  (and (= (select a 0) c0) (= (select a 1) c1) (= (select a 2) c2) (= (select a 3) c3) (= (select a 4) c4) (= (select a 5) c5)))
; equality of the six coefficients (Go arrays have no other elements)
(define-fun aff.eq ((a Aff) (b Aff)) Bool
  (aff.is a (select b 0) (select b 1) (select b 2) (select b 3) (select b 4) (select b 5)))
; "first a, then b": the coefficients of the map p -> b(a(p))   (lemma aff.compose.semantics proves exactly that)
(define-fun aff.compose ((a Aff) (b Aff)) Aff
  (aff.mk (+ (* (select a 0) (select b 0)) (* (select a 3) (select b 1)))
          (+ (* (select a 1) (select b 0)) (* (select a 4) (select b 1)))
          (+ (* (select a 2) (select b 0)) (* (select a 5) (select b 1)) (select b 2))
          (+ (* (select a 0) (select b 3)) (* (select a 3) (select b 4)))
          (+ (* (select a 1) (select b 3)) (* (select a 4) (select b 4)))
          (+ (* (select a 2) (select b 3)) (* (select a 5) (select b 4)) (select b 5))))
(define-fun aff.id () Aff (aff.mk 1.0 0.0 0.0 0.0 1.0 0.0))
; the composition of the first k matrices of a slice, applied left to right (k = 0: the identity)
(define-fun-rec aff.fold ((m (Array Int Aff)) (o Int) (k Int)) Aff
  (ite (<= k 0) aff.id (aff.compose (aff.fold m o (- k 1)) (select m (+ o (- k 1))))))
; the scale part of a scale-and-translate transform, the way relative operands are transformed
(define-fun aff.scaleOf ((t Aff)) Aff (aff.mk (select t 0) 0.0 0.0 0.0 (select t 4) 0.0))
; a coordinate pair after normalisation: relative operands get the scale only, absolute ones the whole transform
(define-fun aff.pairOK ((t Aff) (rel Bool) (nx Real) (ny Real) (ox Real) (oy Real)) Bool
  (ite rel (and (= nx (* ox (select t 0))) (= ny (* oy (select t 4))))
           (and (= nx (aff.x t ox oy)) (= ny (aff.y t ox oy)))))
