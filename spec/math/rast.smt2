; The rasteriser as the Renderer sees it (interface raster.Rasterizer), real-number reading.
; monitor mon.rast raster.Rasterizer RastSt
; requires-ifaces: raster.Rasterizer
; include: base
; State: the pen and the start of the current sub-path. Pen rule from the interface's own documentation
; ("Pen returns the location of the path-drawing pen: the last argument to the most recent XxxTo call");
; ClosePath moves the pen back to the sub-path start, as golang.org/x/image/vector does (assumed contract).
(declare-datatypes ((RastSt 0)) (((mk-RastSt (rast.penX Real) (rast.penY Real) (rast.startX Real) (rast.startY Real)))))
(define-fun mon.rast.step ((s RastSt) (e Ev.raster.Rasterizer)) RastSt
  (ite ((_ is raster.Rasterizer.Reset) e) (mk-RastSt 0.0 0.0 0.0 0.0)
  (ite ((_ is raster.Rasterizer.MoveTo) e) (mk-RastSt (raster.Rasterizer.MoveTo.a0 e) (raster.Rasterizer.MoveTo.a1 e) (raster.Rasterizer.MoveTo.a0 e) (raster.Rasterizer.MoveTo.a1 e))
  (ite ((_ is raster.Rasterizer.LineTo) e) (mk-RastSt (raster.Rasterizer.LineTo.a0 e) (raster.Rasterizer.LineTo.a1 e) (rast.startX s) (rast.startY s))
  (ite ((_ is raster.Rasterizer.QuadTo) e) (mk-RastSt (raster.Rasterizer.QuadTo.a2 e) (raster.Rasterizer.QuadTo.a3 e) (rast.startX s) (rast.startY s))
  (ite ((_ is raster.Rasterizer.CubeTo) e) (mk-RastSt (raster.Rasterizer.CubeTo.a4 e) (raster.Rasterizer.CubeTo.a5 e) (rast.startX s) (rast.startY s))
  (ite ((_ is raster.Rasterizer.ClosePath) e) (mk-RastSt (rast.startX s) (rast.startY s) (rast.startX s) (rast.startY s))
  s)))))))
; "tr is base with exactly k CubeTo calls delivered after it" (k = 0..4), spelled out
(define-fun rast.isCube ((t Tr.raster.Rasterizer)) Bool (and ((_ is cons.raster.Rasterizer) t) ((_ is raster.Rasterizer.CubeTo) (hd.raster.Rasterizer t))))
(define-fun rast.cubes ((t Tr.raster.Rasterizer) (base Tr.raster.Rasterizer) (k Int)) Bool
  (ite (= k 0) (= t base)
  (ite (= k 1) (and (rast.isCube t) (= (tl.raster.Rasterizer t) base))
  (ite (= k 2) (and (rast.isCube t) (rast.isCube (tl.raster.Rasterizer t)) (= (tl.raster.Rasterizer (tl.raster.Rasterizer t)) base))
  (ite (= k 3) (and (rast.isCube t) (rast.isCube (tl.raster.Rasterizer t)) (rast.isCube (tl.raster.Rasterizer (tl.raster.Rasterizer t)))
                    (= (tl.raster.Rasterizer (tl.raster.Rasterizer (tl.raster.Rasterizer t))) base))
  (ite (= k 4) (and (rast.isCube t) (rast.isCube (tl.raster.Rasterizer t)) (rast.isCube (tl.raster.Rasterizer (tl.raster.Rasterizer t)))
                    (rast.isCube (tl.raster.Rasterizer (tl.raster.Rasterizer (tl.raster.Rasterizer t))))
                    (= (tl.raster.Rasterizer (tl.raster.Rasterizer (tl.raster.Rasterizer (tl.raster.Rasterizer t)))) base))
  false))))))
