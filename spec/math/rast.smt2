; The rasteriser as the Renderer sees it (interface raster.Rasterizer), real-number reading.
; monitor mon.rast raster.Rasterizer RastSt
; requires-ifaces: raster.Rasterizer
; include: base
; State: the pen and the start of the current sub-path. Pen rule from the interface's own documentation
; ("Pen returns the location of the path-drawing pen: the last argument to the most recent XxxTo call");
; ClosePath moves the pen back to the sub-path start, as golang.org/x/image/vector does (assumed contract).
(declare-datatypes ((RastSt 0)) (((mk-RastSt (rast.penX Real) (rast.penY Real) (rast.startX Real) (rast.startY Real)))))
(define-fun mon.rast.step ((s RastSt) (e Ev.raster.Rasterizer)) RastSt
  (ite ((_ is raster.Rasterizer.Reset) e) (mk-RastSt 0.0 0.0 0.0 0.0)
  (ite ((_ is raster.Rasterizer.MoveTo) e) (mk-RastSt (raster.Rasterizer.MoveTo.a0 e) (raster.Rasterizer.MoveTo.a1 e) (raster.Rasterizer.MoveTo.a0 e) (raster.Rasterizer.MoveTo.a1 e))
  (ite ((_ is raster.Rasterizer.LineTo) e) (mk-RastSt (raster.Rasterizer.LineTo.a0 e) (raster.Rasterizer.LineTo.a1 e) (rast.startX s) (rast.startY s))
  (ite ((_ is raster.Rasterizer.QuadTo) e) (mk-RastSt (raster.Rasterizer.QuadTo.a2 e) (raster.Rasterizer.QuadTo.a3 e) (rast.startX s) (rast.startY s))
  (ite ((_ is raster.Rasterizer.CubeTo) e) (mk-RastSt (raster.Rasterizer.CubeTo.a4 e) (raster.Rasterizer.CubeTo.a5 e) (rast.startX s) (rast.startY s))
  (ite ((_ is raster.Rasterizer.ClosePath) e) (mk-RastSt (rast.startX s) (rast.startY s) (rast.startX s) (rast.startY s))
  s)))))))
