; Geometry helpers for the real-number reading (C05, C06, C15, C16).
; include: base
; the affine viewBox -> rectangle map of one axis: scale * (v + bias); relative offsets: scale * v
(define-fun geo.abs ((s Real) (b Real) (v Real)) Real (* s (+ v b)))
(define-fun geo.rel ((s Real) (v Real)) Real (* s v))
; reflection of a control point about the pen
(define-fun geo.reflect ((pen Real) (c Real)) Real (- (* 2.0 pen) c))
; gradient spread over the reals: fractional part and triangle wave (0 at even integers, 1 at odd integers)
(define-fun geo.frac ((y Real)) Real (- y (to_real (to_int y))))
(define-fun geo.triangle ((y Real)) Real (ite (= (mod (to_int y) 2) 1) (- 1.0 (geo.frac y)) (geo.frac y)))
(define-fun geo.abs1 ((y Real)) Real (ite (>= y 0.0) y (- y)))
; the four spread modes: 0 none (outside -> -1), 1 pad, 2 reflect, 3 repeat
(define-fun geo.clamp ((s Int) (x Real)) Real
  (ite (and (<= 0.0 x) (<= x 1.0)) x
  (ite (= s 1) (ite (< x 0.0) 0.0 1.0)
  (ite (= s 2) (geo.triangle (geo.abs1 x))
  (ite (= s 3) (geo.frac x)
  (- 1.0))))))
; linear interpolation of a channel, rounded down
(define-fun geo.mix ((t Real) (c0 Real) (c1 Real)) Int (to_int (+ (* (- 1.0 t) c0) (* t c1))))
