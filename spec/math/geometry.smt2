; Geometry helpers for the real-number reading (C05, C06, C15, C16).
; include: base
; the affine viewBox -> rectangle map of one axis: scale * (v + bias); relative offsets: scale * v
(define-fun geo.abs ((s Real) (b Real) (v Real)) Real (* s (+ v b)))
(define-fun geo.rel ((s Real) (v Real)) Real (* s v))
; reflection of a control point about the pen
(define-fun geo.reflect ((pen Real) (c Real)) Real (- (* 2.0 pen) c))
