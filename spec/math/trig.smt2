; Trigonometric functions are uninterpreted in the real-number reading; only their ranges are known.
; include: base
(declare-fun u.sin (Real) Real)
(declare-fun u.cos (Real) Real)
(declare-fun u.acos (Real) Real)
