; The verb letter the Encoder uses for the operation that the FFV0 grammar assigns to a drawing opcode
; (spec section "Drawing Opcodes"; 0 for reserved opcodes). Lemma enctab.events ties it to the grammar's events.
; include: numbers ffv0
(define-fun draw.verbOf ((op (_ BitVec 8))) (_ BitVec 8)
  (ite (bvult op #x20) #x4c (ite (bvult op #x40) #x6c (ite (bvult op #x50) #x54 (ite (bvult op #x60) #x74
  (ite (bvult op #x70) #x51 (ite (bvult op #x80) #x71 (ite (bvult op #x90) #x53 (ite (bvult op #xa0) #x73
  (ite (bvult op #xb0) #x43 (ite (bvult op #xc0) #x63 (ite (bvult op #xd0) #x41 (ite (bvult op #xe0) #x61
  (ite (= op #xe1) #x5a (ite (= op #xe2) #x59 (ite (= op #xe3) #x79
  (ite (= op #xe6) #x48 (ite (= op #xe7) #x68 (ite (= op #xe8) #x56 (ite (= op #xe9) #x76 #x00))))))))))))))))))))
; repetitions and operand numbers per repetition that the grammar reads for opcode op
(define-fun draw.repsOf ((op (_ BitVec 8))) Idx (ite (bvult op #xe0) (draw.reps op) #x0000000000000001))
(define-fun draw.nnumOf ((op (_ BitVec 8))) Idx (ite (bvult op #xe0) (draw.nnum (draw.group op)) (draw1.nnum op)))
; one row of the Encoder's table agrees with the grammar: every opcode base, base+1, ..., base+maxRep-1 is read back as
; the same verb with 1, 2, ..., maxRep repetitions of nArgs numbers (and the byte does not wrap)
(define-fun enctab.rowOK ((v (_ BitVec 8)) (base (_ BitVec 8)) (maxRep (_ BitVec 8)) (nArgs (_ BitVec 8))) Bool
  (and (bvuge maxRep #x01)
       (bvule ((_ zero_extend 8) maxRep) (bvsub #x0100 ((_ zero_extend 8) base)))
       (forall ((r!t (_ BitVec 8)))
         (=> (and (bvuge r!t #x01) (bvule r!t maxRep))
             (let ((op (bvadd base (bvsub r!t #x01))))
               (and (= (draw.verbOf op) v)
                    (= (draw.repsOf op) ((_ zero_extend 56) r!t))
                    (= (draw.nnumOf op) ((_ zero_extend 56) nArgs))))))))
; ---- "equal up to the format's quantisation" for one encoded number (property C01): f is the number handed to the
; Encoder, fb a bit pattern of it, and the number is read back from position q of B by the grammar's decoder:
; a short form reads back exactly f; the 4 byte form reads back f with the two low mantissa bits dropped (at most 4 ulp,
; sign, infinities and non-finiteness preserved, exact when those bits are zero).
(define-fun enc.close4 ((f F32) (fb (_ BitVec 32)) (B Bytes) (q Idx)) Bool
  (and (=> (not (fp.isNaN f)) (spec.close4bits fb (spec.bits4 B q))) (spec.close4nan f (spec.bits4 B q))))
(define-fun enc.realOK ((f F32) (fb (_ BitVec 32)) (B Bytes) (q Idx)) Bool
  (ite (= (spec.numLen (select B q)) #x0000000000000004) (enc.close4 f fb B q) (fp.eq (spec.realV B q) f)))
(define-fun enc.coordOK ((f F32) (fb (_ BitVec 32)) (B Bytes) (q Idx)) Bool
  (ite (= (spec.numLen (select B q)) #x0000000000000004) (enc.close4 f fb B q) (fp.eq (spec.coordV B q) f)))
; the coordinate the Encoder stores for c: the nearest multiple of 1/64 (ties up) when low resolution is selected and
; c is in [-128, 128), c itself otherwise
(define-fun enc.quant ((hr Bool) (c F32)) F32
  (ite (and (not hr) (fp.leq ((_ to_fp 8 24) RNE (- 128.0)) c) (fp.lt c ((_ to_fp 8 24) RNE 128.0)))
       (fp.div RNE ((_ to_fp 8 24) RNE (fp.roundToIntegral RTN (fp.add RNE (fp.mul RNE ((_ to_fp 11 53) RNE c) ((_ to_fp 11 53) RNE 64.0)) ((_ to_fp 11 53) RNE 0.5)))) ((_ to_fp 8 24) RNE 64.0))
       c))
(define-fun enc.z2oOK ((f F32) (fb (_ BitVec 32)) (db (_ BitVec 32)) (B Bytes) (q Idx)) Bool
  (ite (= (spec.numLen (select B q)) #x0000000000000004) (enc.close4 f fb B q)
       (or (fp.eq (spec.z2oV B q) f) (and (= ((_ to_fp 8 24) db) (spec.z2oV B q)) (bvule (spec.absdiff32 db fb) #x00000004)))))
; operands of one operation of verb v, as the Destination method of that verb takes them (arcs: two radii, rotation,
; flags, end point): H h V v: 1; L l T t Y y: 2; Q q S s: 4; C c A a: 6; Z: none
(define-fun enc.nArgsOf ((v (_ BitVec 8))) Idx
  (ite (or (= v #x48) (= v #x68) (= v #x56) (= v #x76)) #x0000000000000001
  (ite (or (= v #x4c) (= v #x6c) (= v #x54) (= v #x74) (= v #x59) (= v #x79)) #x0000000000000002
  (ite (or (= v #x51) (= v #x71) (= v #x53) (= v #x73)) #x0000000000000004
  (ite (or (= v #x43) (= v #x63) (= v #x41) (= v #x61)) #x0000000000000006 #x0000000000000000)))))
