; Gradient spread modes (spec section "Colors and Gradients": none, pad, reflect, repeat), IEEE float64.
; include: base
(define-fun spread.one () F64 ((_ to_fp 11 53) RNE 1.0))
(define-fun spread.zero () F64 (_ +zero 11 53))
(define-fun spread.frac ((y F64)) F64 (fp.sub RNE y (fp.roundToIntegral RTN y)))
; parity of floor(y) for 0 <= y < 2^63
(define-fun spread.oddFloor ((y F64)) Bool (= ((_ extract 0 0) ((_ fp.to_sbv 64) RTN y)) #b1))
; "Reflect means that the offset mapping is reflected start-to-end, end-to-start, start-to-end, etc.": a triangle wave of
; period 2 that is 0 at even integers and 1 at odd integers
(define-fun spread.triangle ((y F64)) F64 (ite (spread.oddFloor y) (fp.sub RNE spread.one (spread.frac y)) (spread.frac y)))
