; Validity of the first k gradient stops, unrolled (nStops <= 63): spec section 'Colors and Gradients':
; 'it is invalid for any of the stop colors to itself be a gradient [non-premultiplied], or for any stop offset to be less than or
;  equal to a previous offset, or outside the range [0, 1]'.
; include: colors
; requires-types: render.Stop
(define-sort NRegs () (Array (_ BitVec 64) (_ FloatingPoint 8 24)))
(define-fun grad.cidx ((base (_ BitVec 8)) (k (_ BitVec 8))) (_ BitVec 64) ((_ zero_extend 56) (bvand (bvadd base k) #x3f)))
(define-fun grad.off ((nreg NRegs) (nbase (_ BitVec 8)) (k (_ BitVec 8))) (_ FloatingPoint 8 24) (select nreg (grad.cidx nbase k)))
(define-fun grad.stopOK ((creg Pal) (nreg NRegs) (cbase (_ BitVec 8)) (nbase (_ BitVec 8)) (k (_ BitVec 8))) Bool
  (let ((n (grad.off nreg nbase k)))
    (and (spec.validPremul (select creg (grad.cidx cbase k)))
         (fp.leq (_ +zero 8 24) n) (fp.leq n ((_ to_fp 8 24) RNE 1.0))
         (or (= k #x00) (fp.gt n (grad.off nreg nbase (bvsub k #x01)))))))
; the first `upto` stops are valid
; (an opaque name revealed by a trigger axiom, like grad.valid below: steps that only need congruence - the same
; registers, bases and count - then involve no quantifier instantiation at all)
(declare-fun grad.validUpTo (Pal NRegs (_ BitVec 8) (_ BitVec 8) (_ BitVec 8)) Bool)
(assert (forall ((creg!v Pal) (nreg!v NRegs) (cb!v (_ BitVec 8)) (nb!v (_ BitVec 8)) (u!v (_ BitVec 8)))
  (! (= (grad.validUpTo creg!v nreg!v cb!v nb!v u!v) (forall ((k!g (_ BitVec 8))) (=> (bvult k!g u!v) (grad.stopOK creg!v nreg!v cb!v nb!v k!g))))
     :pattern ((grad.validUpTo creg!v nreg!v cb!v nb!v u!v)))))
; "the gradient at (cbase, nbase) with n stops is usable": opaque name for (all n stops valid and n >= 2),
; revealed by the axiom below (callers that only compare verdicts need not look inside)
(declare-fun grad.valid (Pal NRegs (_ BitVec 8) (_ BitVec 8) (_ BitVec 8)) Bool)
(assert (forall ((creg!a Pal) (nreg!a NRegs) (cb!a (_ BitVec 8)) (nb!a (_ BitVec 8)) (n!a (_ BitVec 8)))
  (! (= (grad.valid creg!a nreg!a cb!a nb!a n!a) (and (grad.validUpTo creg!a nreg!a cb!a nb!a n!a) (bvuge n!a #x02)))
     :pattern ((grad.valid creg!a nreg!a cb!a nb!a n!a)))))

; the stop the Renderer hands to its Gradient for stop k: offset widened to float64, 8 bit channels widened to 16 bit (x * 0x101)
(define-fun grad.w16 ((u (_ BitVec 8))) (_ BitVec 16) (bvmul ((_ zero_extend 8) u) #x0101))
(define-fun grad.stop ((creg Pal) (nreg NRegs) (cb (_ BitVec 8)) (nb (_ BitVec 8)) (k (_ BitVec 8))) render.Stop
  (let ((c (select creg (grad.cidx cb k))))
    (mk-render.Stop ((_ to_fp 11 53) RNE (grad.off nreg nb k))
                    (mk-color.RGBA64 (grad.w16 (color.RGBA.R c)) (grad.w16 (color.RGBA.G c)) (grad.w16 (color.RGBA.B c)) (grad.w16 (color.RGBA.A c))))))
