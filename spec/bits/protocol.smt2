; The Destination call protocol of an Encoder (property C10), as a specification automaton.
; States: Initial (zero value, nothing written), Styling, Drawing (inside a path), Error(first violation).
; include: base
(declare-datatypes ((Proto 0)) (((P.Initial) (P.Styling) (P.Drawing) (P.Error (P.err Iface)))))
(define-fun proto.abs ((err Iface) (mode (_ BitVec 8))) Proto
  (ite (not (= err nil.Iface)) (P.Error err) (ite (= mode #x00) P.Initial (ite (= mode #x01) P.Styling P.Drawing))))
(define-fun proto.isErr ((s Proto)) Bool ((_ is P.Error) s))
; "a register adjustment above 6, or an incrementing form with non-zero adjustment"
(define-fun proto.badAdj ((adj (_ BitVec 8)) (incr Bool)) Bool (or (bvugt adj #x06) (and incr (not (= adj #x00)))))
; a styling operation (selector, register, LOD write): violation "inside an open path"; the first violation is kept
(define-fun proto.afterStyling ((s Proto) (bad Bool) (s1 Proto)) Bool
  (ite (proto.isErr s) (= s1 s)
  (ite (= s P.Drawing) (proto.isErr s1)
  (ite bad (proto.isErr s1) (= s1 P.Styling)))))
; a new path: violation "new path inside an open path", adjustment above 6
(define-fun proto.afterStart ((s Proto) (bad Bool) (s1 Proto)) Bool
  (ite (proto.isErr s) (= s1 s)
  (ite (= s P.Drawing) (proto.isErr s1)
  (ite bad (proto.isErr s1) (= s1 P.Drawing)))))
; a drawing operation (incl. close-and-move): violation "outside a path"
(define-fun proto.afterDraw ((s Proto) (s1 Proto)) Bool
  (ite (proto.isErr s) (= s1 s) (ite (= s P.Drawing) (= s1 P.Drawing) (proto.isErr s1))))
; close path and end path
(define-fun proto.afterEnd ((s Proto) (s1 Proto)) Bool
  (ite (proto.isErr s) (= s1 s) (ite (= s P.Drawing) (= s1 P.Styling) (proto.isErr s1))))
; read-backs and Bytes: no protocol effect (a zero value starts behaving as a reset one)
(define-fun proto.afterNeutral ((s Proto) (s1 Proto)) Bool (or (= s1 s) (and (= s P.Initial) (= s1 P.Styling))))
; a styling call is accepted (takes effect) iff
(define-fun proto.accepts ((s Proto) (bad Bool)) Bool (and (or (= s P.Initial) (= s P.Styling)) (not bad)))
; the 19 drawing verbs of the Encoder's run buffer: H h V v L l T t Q q S s C c A a Z Y y
(define-fun enc.isVerb ((v (_ BitVec 8))) Bool
  (or (= v #x48) (= v #x68) (= v #x56) (= v #x76) (= v #x4c) (= v #x6c) (= v #x54) (= v #x74) (= v #x51) (= v #x71)
      (= v #x53) (= v #x73) (= v #x43) (= v #x63) (= v #x41) (= v #x61) (= v #x5a) (= v #x59) (= v #x79)))
