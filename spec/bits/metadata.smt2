; Metadata chunks, transcribed from spec/iconvg-spec-v0.md, sections "Metadata", "MID 0 - ViewBox", "MID 1 - Suggested Palette".
; include: ffv0
; A chunk at p (end of input e): length L (natural), then MID (natural), then MID-specific data; "Each chunk starts with the
; length remaining in the chunk ... not including the chunk length itself".
(define-fun meta.p1 ((B Bytes) (p Idx) (e Idx)) Idx (ffv0.skip B p e))                 ; after the length field
(define-fun meta.len ((B Bytes) (p Idx)) Idx ((_ zero_extend 32) (spec.natV B p)))      ; declared length
(define-fun meta.p2 ((B Bytes) (p Idx) (e Idx)) Idx (ffv0.skip B (meta.p1 B p e) e))    ; after the MID
(define-fun meta.mid ((B Bytes) (p Idx) (e Idx)) (_ BitVec 32) (spec.natV B (meta.p1 B p e)))
; viewBox: "four coordinate values ... minX, minY, maxX, maxY"
(define-fun meta.vbOK ((B Bytes) (p Idx) (e Idx)) Bool (draw.numsOK B (meta.p2 B p e) e #x0000000000000004))
(define-fun meta.vbMinX ((B Bytes) (p Idx) (e Idx)) F32 (draw.c0 B (meta.p2 B p e) e))
(define-fun meta.vbMinY ((B Bytes) (p Idx) (e Idx)) F32 (draw.c1 B (meta.p2 B p e) e))
(define-fun meta.vbMaxX ((B Bytes) (p Idx) (e Idx)) F32 (draw.c2 B (meta.p2 B p e) e))
(define-fun meta.vbMaxY ((B Bytes) (p Idx) (e Idx)) F32 (draw.c3 B (meta.p2 B p e) e))
(define-fun meta.nonfinite ((f F32)) Bool (or (fp.isNaN f) (fp.isInfinite f)))
; "A viewBox is invalid if (minX > maxX) or if (minY > maxY) or if at least one of those four values are infinite or a NaN"
(define-fun meta.vbValid ((a F32) (b F32) (c F32) (d F32)) Bool
  (not (or (fp.gt a c) (fp.gt b d) (meta.nonfinite a) (meta.nonfinite b) (meta.nonfinite c) (meta.nonfinite d))))
; suggested palette: "The low 6 bits of that byte form a number N. The high 2 bits denote the palette color format: 0, 1, 2 or 3
; mean 1, 2, 3 (direct) or 4 byte colors. The chunk then contains N+1 explicit colors"
(define-fun meta.palN1 ((b (_ BitVec 8))) Idx (bvadd #x0000000000000001 ((_ zero_extend 56) (bvand b #x3f))))
(define-fun meta.palFmt ((b (_ BitVec 8))) (_ BitVec 8) (bvlshr b #x06))
(define-fun meta.palW ((b (_ BitVec 8))) Idx (bvadd #x0000000000000001 ((_ zero_extend 56) (meta.palFmt b))))
(define-fun meta.palP3 ((B Bytes) (p Idx) (e Idx)) Idx (bvadd (meta.p2 B p e) #x0000000000000001))
(define-fun meta.palEnd ((B Bytes) (p Idx) (e Idx)) Idx
  (bvadd (meta.palP3 B p e) (bvmul (meta.palN1 (select B (meta.p2 B p e))) (meta.palW (select B (meta.p2 B p e))))))
(define-fun meta.palOK ((B Bytes) (p Idx) (e Idx)) Bool (and (bvult (meta.p2 B p e) e) (bvule (meta.palEnd B p e) e)))
(define-fun meta.color ((B Bytes) (q Idx) (fmt (_ BitVec 8))) ivg.Color
  (let ((b0 (select B q)) (b1 (select B (bvadd q #x0000000000000001))) (b2 (select B (bvadd q #x0000000000000002))) (b3 (select B (bvadd q #x0000000000000003))))
    (ite (= fmt #x00) (spec.color1 b0) (ite (= fmt #x01) (spec.color2 b0 b1) (ite (= fmt #x02) (spec.color3d b0 b1 b2) (spec.color4 b0 b1 b2 b3))))))
; entry k of the suggested palette chunk at p: "A 1 byte color that refers to the custom palette or a CREG color register resolves to opaque black"
(define-fun meta.palEntry ((B Bytes) (p Idx) (e Idx) (k Idx)) color.RGBA
  (let ((b (select B (meta.p2 B p e))))
    (spec.sanitize (meta.color B (bvadd (meta.palP3 B p e) (bvmul k (meta.palW b))) (meta.palFmt b)))))
; where the MID-specific data ends
(define-fun meta.dataEnd ((B Bytes) (p Idx) (e Idx)) Idx
  (ite (= (meta.mid B p e) #x00000000) (draw.p4 B (meta.p2 B p e) e) (meta.palEnd B p e)))
; "declared length disagrees with content": what remains after the MID-specific data must be what remained after the length
; field minus the declared length
(define-fun meta.consistent ((B Bytes) (p Idx) (e Idx)) Bool
  (= (bvsub e (meta.dataEnd B p e)) (bvsub (bvsub e (meta.p1 B p e)) (meta.len B p))))
; error classes, in the order the checks apply: 0 none, 1 invalid chunk length, 2 invalid identifier, 3 unsupported identifier,
; 4 invalid view box, 5 invalid suggested palette, 6 inconsistent chunk length ("declared length disagrees with content")
(define-fun meta.err ((B Bytes) (p Idx) (e Idx)) Int
  (ite (not (ffv0.numOK B p e)) 1
  (ite (not (ffv0.numOK B (meta.p1 B p e) e)) 2
  (ite (bvuge (meta.mid B p e) #x00000002) 3
  (ite (= (meta.mid B p e) #x00000000)
       (ite (not (and (meta.vbOK B p e) (meta.vbValid (meta.vbMinX B p e) (meta.vbMinY B p e) (meta.vbMaxX B p e) (meta.vbMaxY B p e)))) 4
       (ite (meta.consistent B p e) 0 6))
       (ite (not (meta.palOK B p e)) 5
       (ite (meta.consistent B p e) 0 6)))))))
