; Observations of an image/color.Color value.
; include: base
; requires-types: image/color.RGBA
; what a colour.Color reports through RGBA(), as a function of the value (assumed: RGBA() is an observer)
(declare-fun color.chR (Iface) (_ BitVec 32))
(declare-fun color.chG (Iface) (_ BitVec 32))
(declare-fun color.chB (Iface) (_ BitVec 32))
(declare-fun color.chA (Iface) (_ BitVec 32))
; the 8 bit colour made of the high bytes of the four channels (what color.RGBAModel.Convert yields for a non-RGBA colour)
(define-fun color.toRGBA8 ((c Iface)) color.RGBA
  (mk-color.RGBA ((_ extract 15 8) (color.chR c)) ((_ extract 15 8) (color.chG c)) ((_ extract 15 8) (color.chB c)) ((_ extract 15 8) (color.chA c))))
