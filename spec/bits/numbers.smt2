; FFV0 number encodings, transcribed from spec/iconvg-spec-v0.md, section "Numbers".
; All functions read from a byte array `a` at position `p`; `avail` is the number of bytes available from p.
; include: base
; provides: numbers

; "the low two bits of the first byte indicate the encoding length. If the least significant bit of the
;  first byte is 0, the number is encoded in 1 byte. Otherwise, it is encoded in 2 or 4 bytes depending on
;  the second least significant bit of the first byte being 0 or 1."
(define-fun spec.numLen ((b0 (_ BitVec 8))) Idx
  (ite (= ((_ extract 0 0) b0) #b0) #x0000000000000001
  (ite (= ((_ extract 1 1) b0) #b0) #x0000000000000002 #x0000000000000004)))

; number of bytes a number occupies at p, or 0 when it is cut short by the end of input
(define-fun spec.numN ((a Bytes) (p Idx) (avail Idx)) Idx
  (ite (= avail #x0000000000000000) #x0000000000000000
    (ite (bvule (spec.numLen (select a p)) avail) (spec.numLen (select a p)) #x0000000000000000)))

(define-fun spec.le16 ((a Bytes) (p Idx)) (_ BitVec 16) (concat (select a (bvadd p #x0000000000000001)) (select a p)))
(define-fun spec.le32 ((a Bytes) (p Idx)) (_ BitVec 32)
  (concat (select a (bvadd p #x0000000000000003)) (select a (bvadd p #x0000000000000002)) (select a (bvadd p #x0000000000000001)) (select a p)))

; Natural numbers: "the remaining 7 bits form an integer value", "the remaining 14 bits, interpreted as
; little endian", "the remaining 30 bits, interpreted as little endian".
(define-fun spec.natV ((a Bytes) (p Idx)) (_ BitVec 32)
  (let ((k (spec.numLen (select a p))))
    (ite (= k #x0000000000000001) ((_ zero_extend 25) ((_ extract 7 1) (select a p)))
    (ite (= k #x0000000000000002) ((_ zero_extend 18) ((_ extract 15 2) (spec.le16 a p)))
                                  ((_ zero_extend 2) ((_ extract 31 2) (spec.le32 a p)))))))

; Real numbers: 1 and 2 byte: "the decoded real number equals the decoded natural number"; 4 byte: "shifted
; left by 2 ... reinterpretation as a float32".
(define-fun spec.real4 ((a Bytes) (p Idx)) F32 ((_ to_fp 8 24) (bvshl (spec.natV a p) #x00000002)))
(define-fun spec.realV ((a Bytes) (p Idx)) F32
  (ite (= (spec.numLen (select a p)) #x0000000000000004) (spec.real4 a p)
       ((_ to_fp_unsigned 8 24) RNE (spec.natV a p))))

; Coordinate numbers: "((R * scale) - bias)": 1 byte scale 1 bias 64; 2 byte scale 1/64 bias 128; 4 byte: R.
(define-fun spec.coordV ((a Bytes) (p Idx)) F32
  (let ((k (spec.numLen (select a p))) (R (spec.realV a p)))
    (ite (= k #x0000000000000001) (fp.sub RNE R ((_ to_fp 8 24) RNE 64.0))
    (ite (= k #x0000000000000002) (fp.sub RNE (fp.mul RNE R ((_ to_fp 8 24) RNE 0.015625)) ((_ to_fp 8 24) RNE 128.0))
         R))))

; Zero-to-one numbers: 1 byte "scaled by 1/120", 2 byte "scaled by 1/15120" (the nearest float32 to the
; exact quotient), 4 byte: R.
(define-fun spec.z2oV ((a Bytes) (p Idx)) F32
  (let ((k (spec.numLen (select a p))) (R (spec.realV a p)))
    (ite (= k #x0000000000000001) (fp.div RNE R ((_ to_fp 8 24) RNE 120.0))
    (ite (= k #x0000000000000002) (fp.div RNE R ((_ to_fp 8 24) RNE 15120.0))
         R))))

; shortest natural encoding length
(define-fun spec.natMinLen ((u (_ BitVec 32))) Idx
  (ite (bvult u #x00000080) #x0000000000000001 (ite (bvult u #x00004000) #x0000000000000002 #x0000000000000004)))

; float32 helpers
(define-fun spec.isInt32 ((f F32)) Bool (and (not (fp.isNaN f)) (not (fp.isInfinite f)) (fp.eq f (fp.roundToIntegral RTZ f))))
(define-fun spec.finite ((f F32)) Bool (and (not (fp.isNaN f)) (not (fp.isInfinite f))))

; ---- statements about the 4-byte (30-bit float) form, over IEEE bit patterns.
; u: a bit pattern of the original float32, d: the bit pattern read back (always a multiple of 4).
; "at most 4 units in the last place, sign and infinities preserved, NaN stays non-finite";
; "numerically equal whenever the value is representable in the form chosen" (low two mantissa bits zero).
(define-fun spec.absdiff32 ((x (_ BitVec 32)) (y (_ BitVec 32))) (_ BitVec 32) (ite (bvuge x y) (bvsub x y) (bvsub y x)))
(define-fun spec.close4bits ((u (_ BitVec 32)) (d (_ BitVec 32))) Bool
  (and (= ((_ extract 1 0) d) #b00)
       (= ((_ extract 31 31) u) ((_ extract 31 31) d))                       ; sign preserved
       (=> (= ((_ extract 1 0) u) #b00) (= d u))                             ; representable: exact
       (ite (= ((_ extract 30 23) u) #xff)
            ; infinities preserved, NaN stays non-finite
            (and (= ((_ extract 30 23) d) #xff) (=> (= ((_ extract 22 0) u) #b00000000000000000000000) (= d u)))
            ; finite: within 4 ulp, stays finite
            (and (not (= ((_ extract 30 23) d) #xff)) (bvule (spec.absdiff32 u d) #x00000004)))))
; the same, stated for a float32 value f (every bit pattern of f, which is unique unless f is NaN)
(define-fun spec.close4 ((f F32) (d (_ BitVec 32))) Bool
  (forall ((u (_ BitVec 32))) (=> (= ((_ to_fp 8 24) u) f) (spec.close4bits u d))))
; weaker, for NaN (any payload may have been chosen by the platform): non-finite stays non-finite
(define-fun spec.close4nan ((f F32) (d (_ BitVec 32))) Bool
  (=> (fp.isNaN f) (= ((_ extract 30 23) d) #xff)))

; representability predicates ("representable in the form chosen")
(define-fun spec.real.rep1 ((f F32)) Bool (and (spec.isInt32 f) (fp.leq (_ +zero 8 24) f) (fp.lt f ((_ to_fp 8 24) RNE 128.0))))
(define-fun spec.real.rep2 ((f F32)) Bool (and (spec.isInt32 f) (fp.leq (_ +zero 8 24) f) (fp.lt f ((_ to_fp 8 24) RNE 16384.0))))
(define-fun spec.coord.rep1 ((f F32)) Bool (and (spec.isInt32 f) (fp.leq ((_ to_fp 8 24) RNE (- 64.0)) f) (fp.lt f ((_ to_fp 8 24) RNE 64.0))))
(define-fun spec.coord.rep2 ((f F32)) Bool
  (let ((g (fp.mul RNE f ((_ to_fp 8 24) RNE 64.0))))
    (and (spec.isInt32 g) (fp.leq ((_ to_fp 8 24) RNE (- 8192.0)) g) (fp.lt g ((_ to_fp 8 24) RNE 8192.0)))))
; 32-bit pattern stored by a 4-byte number at p
(define-fun spec.bits4 ((a Bytes) (p Idx)) (_ BitVec 32) (bvshl (spec.natV a p) #x00000002))
