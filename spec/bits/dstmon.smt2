; What a Destination has seen so far, as far as property C02 needs it: has any call been delivered, and was the first one Reset.
; monitor mon.dst ivg.Destination DstSt
; requires-ifaces: ivg.Destination
; include: base
(declare-datatypes ((DstSt 0)) (((mk-DstSt (dst.started Bool) (dst.resetFirst Bool)))))
(define-fun mon.dst.step ((s DstSt) (e Ev.ivg.Destination)) DstSt
  (ite (dst.started s) s (mk-DstSt true ((_ is ivg.Destination.Reset) e))))
; once something was delivered, the summary no longer changes
(define-fun dst.mono ((a DstSt) (b DstSt)) Bool (=> (dst.started a) (= b a)))
; "nothing is delivered ... the first delivered call is Reset"
(define-fun dst.clean ((s DstSt)) Bool (or (not (dst.started s)) (dst.resetFirst s)))
