; FFV0 colour encodings, transcribed from spec/iconvg-spec-v0.md, section "Colors".
; include: base
; provides: colors
; requires-types: image/color.RGBA ivg.Color
; An ivg.Color is (typ, data): typ 0 = direct RGBA, 1 = custom-palette index, 2 = CREG index, 3 = blend;
; for the indirect kinds the index / blend operands live in data.R (,G,B) and the remaining fields are zero.
(define-fun spec.rgba ((r (_ BitVec 8)) (g (_ BitVec 8)) (b (_ BitVec 8)) (a (_ BitVec 8))) color.RGBA (mk-color.RGBA r g b a))
(define-fun spec.colRGBA ((c color.RGBA)) ivg.Color (mk-ivg.Color #x00 c))
(define-fun spec.colPalette ((i (_ BitVec 8))) ivg.Color (mk-ivg.Color #x01 (mk-color.RGBA i #x00 #x00 #x00)))
(define-fun spec.colCReg ((i (_ BitVec 8))) ivg.Color (mk-ivg.Color #x02 (mk-color.RGBA i #x00 #x00 #x00)))
(define-fun spec.colBlend ((t (_ BitVec 8)) (c0 (_ BitVec 8)) (c1 (_ BitVec 8))) ivg.Color (mk-ivg.Color #x03 (mk-color.RGBA t c0 c1 #x00)))

; "0, 1, 2, 3 and 4 map to 0x00, 0x40, 0x80, 0xC0 and 0xFF"
(define-fun spec.base5 ((d (_ BitVec 8))) (_ BitVec 8)
  (ite (= d #x00) #x00 (ite (= d #x01) #x40 (ite (= d #x02) #x80 (ite (= d #x03) #xc0 #xff)))))

; 1 byte encoding: "[0, 125) encode the RGBA color where the red, green and blue values come from the base-5
; encoding of that byte value ... alpha 0xFF ... 125, 126 or 127 mean C0:C0:C0:C0, 80:80:80:80 and 00:00:00:00 ...
; [128, 192) mean a color from the custom palette (byte minus 128) ... [192, 256) the value of a CREG register (byte minus 192)".
; Example of the document: 0x30 = 48 = 1*25 + 4*5 + 3 is 40:FF:C0:FF, i.e. red is the most significant digit.
(define-fun spec.color1.typ ((x (_ BitVec 8))) (_ BitVec 8) (ite (bvuge x #xc0) #x02 (ite (bvuge x #x80) #x01 #x00)))
(define-fun spec.color1.data ((x (_ BitVec 8))) color.RGBA
  (ite (bvuge x #xc0) (mk-color.RGBA (bvsub x #xc0) #x00 #x00 #x00)
  (ite (bvuge x #x80) (mk-color.RGBA (bvsub x #x80) #x00 #x00 #x00)
  (ite (= x #x7f) (spec.rgba #x00 #x00 #x00 #x00)
  (ite (= x #x7e) (spec.rgba #x80 #x80 #x80 #x80)
  (ite (= x #x7d) (spec.rgba #xc0 #xc0 #xc0 #xc0)
    (spec.rgba (spec.base5 (bvudiv x #x19)) (spec.base5 (bvurem (bvudiv x #x05) #x05)) (spec.base5 (bvurem x #x05)) #xff)))))))
(define-fun spec.color1 ((x (_ BitVec 8))) ivg.Color (mk-ivg.Color (spec.color1.typ x) (spec.color1.data x)))

; 2 byte encoding: "4 bit values which are extended to 8 bits by duplicating each nibble"
(define-fun spec.dup ((n (_ BitVec 4))) (_ BitVec 8) (concat n n))
(define-fun spec.color2 ((b0 (_ BitVec 8)) (b1 (_ BitVec 8))) ivg.Color
  (spec.colRGBA (spec.rgba (spec.dup ((_ extract 7 4) b0)) (spec.dup ((_ extract 3 0) b0)) (spec.dup ((_ extract 7 4) b1)) (spec.dup ((_ extract 3 0) b1)))))
; 3 byte direct: "alpha value is implicitly 255"
(define-fun spec.color3d ((b0 (_ BitVec 8)) (b1 (_ BitVec 8)) (b2 (_ BitVec 8))) ivg.Color (spec.colRGBA (spec.rgba b0 b1 b2 #xff)))
; 4 byte
(define-fun spec.color4 ((b0 (_ BitVec 8)) (b1 (_ BitVec 8)) (b2 (_ BitVec 8)) (b3 (_ BitVec 8))) ivg.Color (spec.colRGBA (spec.rgba b0 b1 b2 b3)))
; 3 byte indirect: T, C0, C1
(define-fun spec.color3i ((b0 (_ BitVec 8)) (b1 (_ BitVec 8)) (b2 (_ BitVec 8))) ivg.Color (spec.colBlend b0 b1 b2))

; every Color a client can build (fields are unexported; the four constructors are the only way)
(define-fun spec.validColor ((c ivg.Color)) Bool
  (let ((t (ivg.Color.typ c)) (d (ivg.Color.data c)))
    (and (bvule t #x03)
         (=> (or (= t #x01) (= t #x02)) (and (bvult (color.RGBA.R d) #x40) (= (color.RGBA.G d) #x00) (= (color.RGBA.B d) #x00) (= (color.RGBA.A d) #x00)))
         (=> (= t #x03) (= (color.RGBA.A d) #x00)))))

(define-fun spec.validPremul ((c color.RGBA)) Bool
  (and (bvule (color.RGBA.R c) (color.RGBA.A c)) (bvule (color.RGBA.G c) (color.RGBA.A c)) (bvule (color.RGBA.B c) (color.RGBA.A c))))
(define-fun spec.opaqueBlack () color.RGBA (mk-color.RGBA #x00 #x00 #x00 #xff))
; "A 1 byte color that refers to the custom palette or a CREG color register resolves to opaque black";
; non-premultiplied suggested colours are replaced by opaque black.
(define-fun spec.sanitize ((c ivg.Color)) color.RGBA
  (ite (and (= (ivg.Color.typ c) #x00) (spec.validPremul (ivg.Color.data c))) (ivg.Color.data c) spec.opaqueBlack))

; gradient-encoding colours: alpha 0 and the 0x80 bit of blue set (spec section "Colors and Gradients")
(define-fun spec.isGradient ((c color.RGBA)) Bool (and (= (color.RGBA.A c) #x00) (= ((_ extract 7 7) (color.RGBA.B c)) #b1)))

; blend channel: "(((255-T) * C0.RED) + (T * C1.RED) + 128) / 255 rounded down"
(define-fun spec.blendCh ((t (_ BitVec 8)) (x (_ BitVec 8)) (y (_ BitVec 8))) (_ BitVec 8)
  ((_ extract 7 0) (bvudiv (bvadd (bvadd (bvmul ((_ zero_extend 24) (bvsub #xff t)) ((_ zero_extend 24) x)) (bvmul ((_ zero_extend 24) t) ((_ zero_extend 24) y))) #x00000080) #x000000ff)))
(define-fun spec.blendRGBA ((t (_ BitVec 8)) (p color.RGBA) (q color.RGBA)) color.RGBA
  (mk-color.RGBA (spec.blendCh t (color.RGBA.R p) (color.RGBA.R q)) (spec.blendCh t (color.RGBA.G p) (color.RGBA.G q))
                 (spec.blendCh t (color.RGBA.B p) (color.RGBA.B q)) (spec.blendCh t (color.RGBA.A p) (color.RGBA.A q))))

(define-sort Pal () (Array (_ BitVec 64) color.RGBA))
; resolution of a non-blend colour in a context (palette, CREG)
(define-fun spec.resolve1 ((c ivg.Color) (pal Pal) (creg Pal)) color.RGBA
  (let ((t (ivg.Color.typ c)) (i ((_ zero_extend 56) (bvand (color.RGBA.R (ivg.Color.data c)) #x3f))))
    (ite (= t #x00) (ivg.Color.data c) (ite (= t #x01) (select pal i) (ite (= t #x02) (select creg i) (mk-color.RGBA #x00 #x00 #x00 #x00))))))
; full resolution: blends resolve their two 1-byte operands (which are never blends themselves)
(define-fun spec.resolve ((c ivg.Color) (pal Pal) (creg Pal)) color.RGBA
  (ite (= (ivg.Color.typ c) #x03)
       (spec.blendRGBA (color.RGBA.R (ivg.Color.data c))
                       (spec.resolve1 (spec.color1 (color.RGBA.G (ivg.Color.data c))) pal creg)
                       (spec.resolve1 (spec.color1 (color.RGBA.B (ivg.Color.data c))) pal creg))
       (spec.resolve1 c pal creg)))

; a direct colour expressible in the 1 byte form (exists x < 128 with color1(x) = c), spelled out
(define-fun spec.is5 ((u (_ BitVec 8))) Bool (or (= u #x00) (= u #x40) (= u #x80) (= u #xc0) (= u #xff)))
(define-fun spec.enc1able ((c color.RGBA)) Bool
  (or (and (= (color.RGBA.A c) #xff) (spec.is5 (color.RGBA.R c)) (spec.is5 (color.RGBA.G c)) (spec.is5 (color.RGBA.B c)))
      (= c (mk-color.RGBA #x00 #x00 #x00 #x00)) (= c (mk-color.RGBA #x80 #x80 #x80 #x80)) (= c (mk-color.RGBA #xc0 #xc0 #xc0 #xc0))))
(define-fun spec.is17 ((u (_ BitVec 8))) Bool (= ((_ extract 7 4) u) ((_ extract 3 0) u)))
(define-fun spec.enc2able ((c color.RGBA)) Bool
  (and (spec.is17 (color.RGBA.R c)) (spec.is17 (color.RGBA.G c)) (spec.is17 (color.RGBA.B c)) (spec.is17 (color.RGBA.A c))))

; gradient parameter packing (section "Colors and Gradients")
(define-fun spec.grad.nstops ((c color.RGBA)) (_ BitVec 8) (bvand (color.RGBA.R c) #x3f))
(define-fun spec.grad.cbase ((c color.RGBA)) (_ BitVec 8) (bvand (color.RGBA.G c) #x3f))
(define-fun spec.grad.spread ((c color.RGBA)) (_ BitVec 8) (bvlshr (color.RGBA.G c) #x06))
(define-fun spec.grad.nbase ((c color.RGBA)) (_ BitVec 8) (bvand (color.RGBA.B c) #x3f))
(define-fun spec.grad.shape ((c color.RGBA)) (_ BitVec 8) (bvand (bvlshr (color.RGBA.B c) #x06) #x01))
