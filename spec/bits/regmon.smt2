; The selector / register machine behind every ivg.Destination, as the format describes it (spec sections
; "Registers" and "Styling Mode": 64 colour and 64 number registers, 6 bit selectors CSEL and NSEL, "Set CREG[CSEL-adj]",
; "Set CREG[CSEL]; CSEL++" with wrap-around modulo 64).
; The state is a function of the calls delivered so far. That an implementation behaves like this machine is what
; property C07 / C04 prove of render.Renderer (C04.vm.*, C07.ren.*) and of encode.Encoder's selectors (C07.enc.*);
; generate's contracts assume it of the Destination they write to (an Encoder must be in styling mode for that).
; monitor mon.regs ivg.Destination RegSt
; requires-ifaces: ivg.Destination
; include: colors colorobs
(define-sort CRegs8 () (Array (_ BitVec 8) ivg.Color))
(define-sort NRegs8 () (Array (_ BitVec 8) (_ FloatingPoint 8 24)))
(declare-datatypes ((RegSt 0)) (((mk-RegSt (reg.csel (_ BitVec 8)) (reg.nsel (_ BitVec 8)) (reg.c CRegs8) (reg.n NRegs8)))))
(define-fun reg.idx ((sel (_ BitVec 8)) (adj (_ BitVec 8))) (_ BitVec 8) (bvand (bvsub sel adj) #x3f))
(define-fun reg.next ((sel (_ BitVec 8)) (incr Bool)) (_ BitVec 8) (ite incr (bvand (bvadd sel #x01) #x3f) sel))
(define-fun mon.regs.step ((s RegSt) (e Ev.ivg.Destination)) RegSt
  (ite ((_ is ivg.Destination.SetCSel) e) (mk-RegSt (bvand (ivg.Destination.SetCSel.a0 e) #x3f) (reg.nsel s) (reg.c s) (reg.n s))
  (ite ((_ is ivg.Destination.SetNSel) e) (mk-RegSt (reg.csel s) (bvand (ivg.Destination.SetNSel.a0 e) #x3f) (reg.c s) (reg.n s))
  (ite ((_ is ivg.Destination.SetCReg) e)
       (mk-RegSt (reg.next (reg.csel s) (ivg.Destination.SetCReg.a1 e)) (reg.nsel s)
                 (store (reg.c s) (reg.idx (reg.csel s) (ivg.Destination.SetCReg.a0 e)) (ivg.Destination.SetCReg.a2 e)) (reg.n s))
  (ite ((_ is ivg.Destination.SetNReg) e)
       (mk-RegSt (reg.csel s) (reg.next (reg.nsel s) (ivg.Destination.SetNReg.a1 e)) (reg.c s)
                 (store (reg.n s) (reg.idx (reg.nsel s) (ivg.Destination.SetNReg.a0 e)) (ivg.Destination.SetNReg.a2 e)))
  s)))))
; selectors stay within 6 bits
(define-fun reg.inv ((s RegSt)) Bool (and (bvult (reg.csel s) #x40) (bvult (reg.nsel s) #x40)))
; position of register k relative to a base, modulo 64: k is the ((k - base) mod 64)'th register from base
(define-fun reg.rel ((k (_ BitVec 8)) (base (_ BitVec 8))) (_ BitVec 64) ((_ zero_extend 56) (bvand (bvsub k base) #x3f)))
; the direct 8 bit colour the generator stores for a stop colour: the high bytes of the 16 bit channels
(define-fun gen.stopColor ((c Iface)) ivg.Color (spec.colRGBA (color.toRGBA8 c)))
