; OPAQUE VIEW of the FFV0 number encodings (lengths defined, decoded values uninterpreted): for VCs that only
; compare decoded values for equality (the decoder above the operand decoders). Proving with an uninterpreted function
; is valid for every interpretation, in particular for the defined one in numbers.smt2.
; FFV0 number encodings, transcribed from spec/iconvg-spec-v0.md, section "Numbers".
; All functions read from a byte array `a` at position `p`; `avail` is the number of bytes available from p.
; include: base
; provides: numbers

; "the low two bits of the first byte indicate the encoding length. If the least significant bit of the
;  first byte is 0, the number is encoded in 1 byte. Otherwise, it is encoded in 2 or 4 bytes depending on
;  the second least significant bit of the first byte being 0 or 1."
(define-fun spec.numLen ((b0 (_ BitVec 8))) Idx
  (ite (= ((_ extract 0 0) b0) #b0) #x0000000000000001
  (ite (= ((_ extract 1 1) b0) #b0) #x0000000000000002 #x0000000000000004)))

; number of bytes a number occupies at p, or 0 when it is cut short by the end of input
(define-fun spec.numN ((a Bytes) (p Idx) (avail Idx)) Idx
  (ite (= avail #x0000000000000000) #x0000000000000000
    (ite (bvule (spec.numLen (select a p)) avail) (spec.numLen (select a p)) #x0000000000000000)))

(define-fun spec.le16 ((a Bytes) (p Idx)) (_ BitVec 16) (concat (select a (bvadd p #x0000000000000001)) (select a p)))
(define-fun spec.le32 ((a Bytes) (p Idx)) (_ BitVec 32)
  (concat (select a (bvadd p #x0000000000000003)) (select a (bvadd p #x0000000000000002)) (select a (bvadd p #x0000000000000001)) (select a p)))

(declare-fun spec.natV (Bytes Idx) (_ BitVec 32))
(declare-fun spec.realV (Bytes Idx) F32)
(declare-fun spec.coordV (Bytes Idx) F32)
(declare-fun spec.z2oV (Bytes Idx) F32)
