; The disassembly printer's byte cursor (property C11: "the hexadecimal byte column, concatenated in line order,
; reproduces the input exactly (every byte once)"). Every printer call is handed a slice b of the input; the listing is
; byte-complete iff every non-empty b starts where the previous one ended and the last one ends at the end of the input.
; The monitor keeps the position the next printed byte must come from and whether every call so far obeyed the rule;
; calls that print no bytes (annotation-only lines such as "implicit" repeats) leave it unchanged.
; monitor mon.pcur decode.printer PCur
; requires-ifaces: decode.printer
; include: base
(declare-datatypes ((PCur 0)) (((mk-PCur (pcur.ok Bool) (pcur.pos Idx)))))
(define-fun mon.pcur.step ((s PCur) (e Ev.decode.printer)) PCur
  (let ((b (decode.printer.call.a0 e)))
    (ite (= (s.len b) #x0000000000000000) s
      (mk-PCur (and (pcur.ok s) (= (s.off b) (pcur.pos s))) (bvadd (pcur.pos s) (s.len b))))))
; "so far every byte before position p of the input was printed exactly once, in order"
(define-fun pcur.at ((s PCur) (p Idx)) Bool (and (pcur.ok s) (= (pcur.pos s) p)))
