; How many paths a Destination has been told to start and to end (property C20: "the path is ended exactly once").
; monitor mon.path ivg.Destination PathSt
; requires-ifaces: ivg.Destination
; include: base
(declare-datatypes ((PathSt 0)) (((mk-PathSt (pm.started Int) (pm.ended Int)))))
(define-fun mon.path.step ((s PathSt) (e Ev.ivg.Destination)) PathSt
  (ite ((_ is ivg.Destination.StartPath) e) (mk-PathSt (+ (pm.started s) 1) (pm.ended s))
  (ite ((_ is ivg.Destination.ClosePathEndPath) e) (mk-PathSt (pm.started s) (+ (pm.ended s) 1))
  s)))
