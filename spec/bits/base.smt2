; Base definitions shared by every bit-precise VC.
(define-sort Idx () (_ BitVec 64))
(define-sort Bytes () (Array (_ BitVec 64) (_ BitVec 8)))
(define-sort F32 () (_ FloatingPoint 8 24))
(define-sort F64 () (_ FloatingPoint 11 53))
(define-fun str.equal ((a Str) (b Str)) Bool (= a b))
; slice helpers
(define-fun slice.at.u8 ((m (Array Int Bytes)) (s Slice) (i Idx)) (_ BitVec 8) (select (select m (s.rgn s)) (bvadd (s.off s) i)))
