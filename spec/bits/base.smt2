; Base definitions shared by every bit-precise VC.
(define-sort Idx () (_ BitVec 64))
(define-sort Bytes () (Array (_ BitVec 64) (_ BitVec 8)))
(define-sort F32 () (_ FloatingPoint 8 24))
(define-sort F64 () (_ FloatingPoint 11 53))
(define-fun gostr.equal ((a Str) (b Str)) Bool (= a b))
; slice helpers
(define-fun slice.at.u8 ((m (Array Int Bytes)) (s Slice) (i Idx)) (_ BitVec 8) (select (select m (s.rgn s)) (bvadd (s.off s) i)))
; memory frame: every region that existed before (id < r0) other than `keep` has its old contents
(define-fun mem.frame.u8 ((m0 (Array Int Bytes)) (m1 (Array Int Bytes)) (r0 Int) (keep Int)) Bool
  (forall ((r!q Int)) (! (=> (and (< r!q r0) (not (= r!q keep))) (= (select m1 r!q) (select m0 r!q))) :pattern ((select m1 r!q)))))
(define-fun mem.frame2.u8 ((m0 (Array Int Bytes)) (m1 (Array Int Bytes)) (r0 Int) (keep Int) (keep2 Int)) Bool
  (forall ((r!q Int)) (! (=> (and (< r!q r0) (not (= r!q keep)) (not (= r!q keep2))) (= (select m1 r!q) (select m0 r!q))) :pattern ((select m1 r!q)))))
