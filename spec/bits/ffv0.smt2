; The FFV0 instruction grammar at instruction / operand granularity, transcribed from
; spec/iconvg-spec-v0.md, sections "Styling Opcodes" and "Drawing Opcodes".
; include: numbers_opaque colors
; requires-ifaces: ivg.Destination
; B: the input bytes, p: position of the opcode, e: end of input (absolute), so avail = e - p.

(define-fun ffv0.drop ((s Slice) (k Idx)) Slice (mk-Slice (s.rgn s) (bvadd (s.off s) k) (bvsub (s.len s) k) (bvsub (s.cap s) k)))
(define-fun ffv0.take ((s Slice) (k Idx)) Slice (mk-Slice (s.rgn s) (s.off s) k (s.cap s)))
; position after the number at p (p itself when the number is cut short)
(define-fun ffv0.skip ((B Bytes) (p Idx) (e Idx)) Idx (bvadd p (spec.numN B p (bvsub e p))))
(define-fun ffv0.numOK ((B Bytes) (p Idx) (e Idx)) Bool (not (= (spec.numN B p (bvsub e p)) #x0000000000000000)))

; ---- styling opcodes
; error classes: 0 none, 1 invalid color, 2 invalid number, 3 unsupported styling opcode
; "0x00-0x3f set CSEL", "0x40-0x7f set NSEL", "0x80-0xa7 set CREG[CSEL-ADJ] to a 1,2,3(direct),4,3(indirect) byte color",
; "0xa8-0xbf set NREG[NSEL-ADJ] to a real, coordinate, zero-to-one number", "0xc0-0xc6 start path", "0xc7 set LOD", rest reserved.
(define-fun styl.adj ((op (_ BitVec 8))) (_ BitVec 8) (ite (= (bvand op #x07) #x07) #x00 (bvand op #x07)))
(define-fun styl.incr ((op (_ BitVec 8))) Bool (= (bvand op #x07) #x07))
(define-fun styl.cform ((op (_ BitVec 8))) (_ BitVec 8) (bvlshr (bvsub op #x80) #x03))
(define-fun styl.cbytes ((op (_ BitVec 8))) Idx
  (let ((f (styl.cform op))) (ite (= f #x00) #x0000000000000001 (ite (= f #x01) #x0000000000000002 (ite (= f #x03) #x0000000000000004 #x0000000000000003)))))
(define-fun styl.color ((B Bytes) (p Idx)) ivg.Color
  (let ((f (styl.cform (select B p))) (q (bvadd p #x0000000000000001)))
    (let ((b0 (select B q)) (b1 (select B (bvadd q #x0000000000000001))) (b2 (select B (bvadd q #x0000000000000002))) (b3 (select B (bvadd q #x0000000000000003))))
      (ite (= f #x00) (spec.color1 b0) (ite (= f #x01) (spec.color2 b0 b1) (ite (= f #x02) (spec.color3d b0 b1 b2) (ite (= f #x03) (spec.color4 b0 b1 b2 b3) (spec.color3i b0 b1 b2))))))))
(define-fun styl.nkind ((op (_ BitVec 8))) (_ BitVec 8) (bvlshr (bvsub op #xa8) #x03))
(define-fun styl.number ((B Bytes) (p Idx)) F32
  (let ((k (styl.nkind (select B p))) (q (bvadd p #x0000000000000001)))
    (ite (= k #x00) (spec.realV B q) (ite (= k #x01) (spec.coordV B q) (spec.z2oV B q)))))

(define-fun styl.err ((B Bytes) (p Idx) (e Idx)) Int
  (let ((op (select B p)) (q (bvadd p #x0000000000000001)))
    (ite (bvult op #x80) 0
    (ite (bvult op #xa8) (ite (bvult (bvsub e q) (styl.cbytes op)) 1 0)
    (ite (bvult op #xc0) (ite (ffv0.numOK B q e) 0 2)
    (ite (bvult op #xc8) (ite (and (ffv0.numOK B q e) (ffv0.numOK B (ffv0.skip B q e) e)) 0 2)
    3))))))
; position after the instruction (when there is no error)
(define-fun styl.next ((B Bytes) (p Idx) (e Idx)) Idx
  (let ((op (select B p)) (q (bvadd p #x0000000000000001)))
    (ite (bvult op #x80) q
    (ite (bvult op #xa8) (bvadd q (styl.cbytes op))
    (ite (bvult op #xc0) (ffv0.skip B q e)
    (ffv0.skip B (ffv0.skip B q e) e))))))
; the mode after the instruction: true = drawing ("0xc0-0xc6 ... start path" switches to drawing mode)
(define-fun styl.toDrawing ((op (_ BitVec 8))) Bool (and (bvuge op #xc0) (bvult op #xc7)))
; the operation delivered
(define-fun styl.event ((B Bytes) (p Idx) (e Idx) (d Iface)) Ev.ivg.Destination
  (let ((op (select B p)) (q (bvadd p #x0000000000000001)))
    (ite (bvult op #x40) (ivg.Destination.SetCSel d (bvand op #x3f))
    (ite (bvult op #x80) (ivg.Destination.SetNSel d (bvand op #x3f))
    (ite (bvult op #xa8) (ivg.Destination.SetCReg d (styl.adj op) (styl.incr op) (styl.color B p))
    (ite (bvult op #xc0) (ivg.Destination.SetNReg d (styl.adj op) (styl.incr op) (styl.number B p))
    (ite (bvult op #xc7) (ivg.Destination.StartPath d (bvand op #x07) (spec.coordV B q) (spec.coordV B (ffv0.skip B q e)))
                         (ivg.Destination.SetLOD d (spec.realV B q) (spec.realV B (ffv0.skip B q e))))))))))

(define-fun mem.only.f32 ((m0 (Array Int (Array Idx F32))) (m1 (Array Int (Array Idx F32))) (r Int)) Bool (= m1 (store m0 r (select m1 r))))

; ---- drawing opcodes, section "Drawing Opcodes"
; "0x00-0x1f L (1+RC reps, 5 bit count)", "0x20-0x3f l", "0x40-0x4f T", "0x50 t", "0x60 Q", "0x70 q", "0x80 S", "0x90 s",
; "0xa0 C", "0xb0 c", "0xc0 A", "0xd0 a" (4 bit counts); "0xe1 z; end path", "0xe2 z; M", "0xe3 z; m", "0xe6 H", "0xe7 h",
; "0xe8 V", "0xe9 v"; 0xe0, 0xe4, 0xe5, 0xea-0xff reserved.
(define-fun draw.group ((op (_ BitVec 8))) (_ BitVec 8) (bvlshr op #x04))
(define-fun draw.reps ((op (_ BitVec 8))) Idx
  (bvadd #x0000000000000001 ((_ zero_extend 56) (ite (bvult op #x40) (bvand op #x1f) (bvand op #x0f)))))
; operand numbers of one repetition: L l T t: 2, Q q S s: 4, C c: 6, A a: 6 (two coordinates, angle, flags, two coordinates)
(define-fun draw.nnum ((g (_ BitVec 8))) Idx
  (ite (bvult g #x06) #x0000000000000002 (ite (bvult g #x0a) #x0000000000000004 #x0000000000000006)))
(define-fun draw.p1 ((B Bytes) (q Idx) (e Idx)) Idx (ffv0.skip B q e))
(define-fun draw.p2 ((B Bytes) (q Idx) (e Idx)) Idx (ffv0.skip B (draw.p1 B q e) e))
(define-fun draw.p3 ((B Bytes) (q Idx) (e Idx)) Idx (ffv0.skip B (draw.p2 B q e) e))
(define-fun draw.p4 ((B Bytes) (q Idx) (e Idx)) Idx (ffv0.skip B (draw.p3 B q e) e))
(define-fun draw.p5 ((B Bytes) (q Idx) (e Idx)) Idx (ffv0.skip B (draw.p4 B q e) e))
(define-fun draw.p6 ((B Bytes) (q Idx) (e Idx)) Idx (ffv0.skip B (draw.p5 B q e) e))
; the first k operand numbers of the repetition at q are complete
(define-fun draw.numsOK ((B Bytes) (q Idx) (e Idx) (k Idx)) Bool
  (and (=> (bvugt k #x0000000000000000) (ffv0.numOK B q e))
       (=> (bvugt k #x0000000000000001) (ffv0.numOK B (draw.p1 B q e) e))
       (=> (bvugt k #x0000000000000002) (ffv0.numOK B (draw.p2 B q e) e))
       (=> (bvugt k #x0000000000000003) (ffv0.numOK B (draw.p3 B q e) e))
       (=> (bvugt k #x0000000000000004) (ffv0.numOK B (draw.p4 B q e) e))
       (=> (bvugt k #x0000000000000005) (ffv0.numOK B (draw.p5 B q e) e))))
(define-fun draw.after ((B Bytes) (q Idx) (e Idx) (k Idx)) Idx
  (ite (= k #x0000000000000001) (draw.p1 B q e) (ite (= k #x0000000000000002) (draw.p2 B q e) (ite (= k #x0000000000000004) (draw.p4 B q e) (draw.p6 B q e)))))
(define-fun draw.repOK ((B Bytes) (q Idx) (e Idx) (g (_ BitVec 8))) Bool (draw.numsOK B q e (draw.nnum g)))
(define-fun draw.repNext ((B Bytes) (q Idx) (e Idx) (g (_ BitVec 8))) Idx (draw.after B q e (draw.nnum g)))
(define-fun draw.c0 ((B Bytes) (q Idx) (e Idx)) F32 (spec.coordV B q))
(define-fun draw.c1 ((B Bytes) (q Idx) (e Idx)) F32 (spec.coordV B (draw.p1 B q e)))
(define-fun draw.c2 ((B Bytes) (q Idx) (e Idx)) F32 (spec.coordV B (draw.p2 B q e)))
(define-fun draw.c3 ((B Bytes) (q Idx) (e Idx)) F32 (spec.coordV B (draw.p3 B q e)))
(define-fun draw.c4 ((B Bytes) (q Idx) (e Idx)) F32 (spec.coordV B (draw.p4 B q e)))
(define-fun draw.c5 ((B Bytes) (q Idx) (e Idx)) F32 (spec.coordV B (draw.p5 B q e)))
; the operation one repetition delivers; arcs: "two coordinates, a zero-to-one x-axis rotation, a natural number whose
; low bit is the large-arc flag and whose second bit is the sweep flag, two coordinates"
(define-fun draw.repEvent ((B Bytes) (q Idx) (e Idx) (g (_ BitVec 8)) (d Iface)) Ev.ivg.Destination
  (let ((a0 (draw.c0 B q e)) (a1 (draw.c1 B q e)) (a2 (draw.c2 B q e)) (a3 (draw.c3 B q e)) (a4 (draw.c4 B q e)) (a5 (draw.c5 B q e))
        (ang (spec.z2oV B (draw.p2 B q e))) (fl (spec.natV B (draw.p3 B q e))))
    (ite (bvult g #x02) (ivg.Destination.AbsLineTo d a0 a1)
    (ite (bvult g #x04) (ivg.Destination.RelLineTo d a0 a1)
    (ite (= g #x04) (ivg.Destination.AbsSmoothQuadTo d a0 a1)
    (ite (= g #x05) (ivg.Destination.RelSmoothQuadTo d a0 a1)
    (ite (= g #x06) (ivg.Destination.AbsQuadTo d a0 a1 a2 a3)
    (ite (= g #x07) (ivg.Destination.RelQuadTo d a0 a1 a2 a3)
    (ite (= g #x08) (ivg.Destination.AbsSmoothCubeTo d a0 a1 a2 a3)
    (ite (= g #x09) (ivg.Destination.RelSmoothCubeTo d a0 a1 a2 a3)
    (ite (= g #x0a) (ivg.Destination.AbsCubeTo d a0 a1 a2 a3 a4 a5)
    (ite (= g #x0b) (ivg.Destination.RelCubeTo d a0 a1 a2 a3 a4 a5)
    (ite (= g #x0c) (ivg.Destination.AbsArcTo d a0 a1 ang (= ((_ extract 0 0) fl) #b1) (= ((_ extract 1 1) fl) #b1) a4 a5)
                    (ivg.Destination.RelArcTo d a0 a1 ang (= ((_ extract 0 0) fl) #b1) (= ((_ extract 1 1) fl) #b1) a4 a5))))))))))))))
; single (non-repeated) drawing opcodes 0xe0..0xff: operand count, reserved, and the operation
(define-fun draw1.reserved ((op (_ BitVec 8))) Bool (or (= op #xe0) (= op #xe4) (= op #xe5) (bvuge op #xea)))
(define-fun draw1.nnum ((op (_ BitVec 8))) Idx (ite (= op #xe1) #x0000000000000000 (ite (bvult op #xe4) #x0000000000000002 #x0000000000000001)))
(define-fun draw1.event ((B Bytes) (q Idx) (e Idx) (op (_ BitVec 8)) (d Iface)) Ev.ivg.Destination
  (ite (= op #xe1) (ivg.Destination.ClosePathEndPath d)
  (ite (= op #xe2) (ivg.Destination.ClosePathAbsMoveTo d (draw.c0 B q e) (draw.c1 B q e))
  (ite (= op #xe3) (ivg.Destination.ClosePathRelMoveTo d (draw.c0 B q e) (draw.c1 B q e))
  (ite (= op #xe6) (ivg.Destination.AbsHLineTo d (draw.c0 B q e))
  (ite (= op #xe7) (ivg.Destination.RelHLineTo d (draw.c0 B q e))
  (ite (= op #xe8) (ivg.Destination.AbsVLineTo d (draw.c0 B q e))
                   (ivg.Destination.RelVLineTo d (draw.c0 B q e)))))))))
; position of operand number k (0..6) of the repetition at q
(define-fun draw.posN ((B Bytes) (q Idx) (e Idx) (k Idx)) Idx
  (ite (= k #x0000000000000000) q (ite (= k #x0000000000000001) (draw.p1 B q e) (ite (= k #x0000000000000002) (draw.p2 B q e)
  (ite (= k #x0000000000000003) (draw.p3 B q e) (ite (= k #x0000000000000004) (draw.p4 B q e) (ite (= k #x0000000000000005) (draw.p5 B q e) (draw.p6 B q e))))))))
