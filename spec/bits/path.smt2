; SVG path-data verbs as generate.SetPathData reads them (property C20).
; include: base
(define-fun path.isVerb ((b (_ BitVec 8))) Bool
  (or (= b #x48) (= b #x68) (= b #x56) (= b #x76)                       ; H h V v
      (= b #x4c) (= b #x6c) (= b #x4d) (= b #x6d) (= b #x54) (= b #x74) ; L l M m T t
      (= b #x51) (= b #x71) (= b #x53) (= b #x73)                       ; Q q S s
      (= b #x43) (= b #x63) (= b #x41) (= b #x61) (= b #x5a) (= b #x7a))) ; C c A a Z z
; number of operands of one group
(define-fun path.nargs ((b (_ BitVec 8))) (_ BitVec 64)
  (ite (or (= b #x48) (= b #x68) (= b #x56) (= b #x76)) #x0000000000000001
  (ite (or (= b #x4c) (= b #x6c) (= b #x4d) (= b #x6d) (= b #x54) (= b #x74)) #x0000000000000002
  (ite (or (= b #x51) (= b #x71) (= b #x53) (= b #x73)) #x0000000000000004
  (ite (or (= b #x43) (= b #x63)) #x0000000000000006
  (ite (or (= b #x41) (= b #x61)) #x0000000000000007 #x0000000000000000))))))
; "operand groups after M/m without a verb are lines": the verb that an unmarked group repeats
(define-fun path.demote ((b (_ BitVec 8))) (_ BitVec 8) (ite (= b #x4d) #x4c (ite (= b #x6d) #x6c b)))
