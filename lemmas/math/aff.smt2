; lemma aff.compose.semantics [C20.compose.semantics] uses aff
; the coefficients aff.compose builds are those of "first a, then b", for every point
(declare-const a Aff)
(declare-const b Aff)
(declare-const x Real)
(declare-const y Real)
(assert (not (and (= (aff.x (aff.compose a b) x y) (aff.x b (aff.x a x y) (aff.y a x y)))
                  (= (aff.y (aff.compose a b) x y) (aff.y b (aff.x a x y) (aff.y a x y))))))
; lemma aff.compose.identity [C20.compose.identity] uses aff
(declare-const a Aff)
(assert (not (and (aff.eq (aff.compose aff.id a) a) (aff.eq (aff.compose a aff.id) a))))
; lemma aff.compose.assoc [C20.compose.assoc] uses aff
(declare-const a Aff)
(declare-const b Aff)
(declare-const c Aff)
(assert (not (aff.eq (aff.compose (aff.compose a b) c) (aff.compose a (aff.compose b c)))))
; lemma aff.scale-translate.closed [C20.compose.scale-translate] uses aff
; scale-and-translate transforms (no shear / rotation terms) are closed under composition, and the scale parts multiply
(declare-const a Aff)
(declare-const b Aff)
(assert (and (= (select a 1) 0.0) (= (select a 3) 0.0) (= (select b 1) 0.0) (= (select b 3) 0.0)))
(assert (not (and (= (select (aff.compose a b) 1) 0.0) (= (select (aff.compose a b) 3) 0.0)
                  (= (select (aff.compose a b) 0) (* (select a 0) (select b 0))) (= (select (aff.compose a b) 4) (* (select a 4) (select b 4))))))
