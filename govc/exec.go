package main

import (
	"fmt"
	"go/token"
	"go/types"
	"math/big"
	"sort"
	"strings"

	"golang.org/x/tools/go/ssa"
)

// safety records an automatic safety obligation.
func (vc *VC) safety(pos token.Pos, pc, kind, goal, what string) {
	if vc.dry > 0 || vc.inInit > 0 {
		return
	}
	if goal == "true" {
		return
	}
	if vc.con != nil && vc.con.NoSafety != "" {
		vc.assum[fmt.Sprintf("run-time safety (bounds, nil, conversions) of %s is NOT checked: %s", vc.fn.String(), vc.con.NoSafety)] = true
		return
	}
	if vc.mode == Math && vc.bitsTwin() {
		// the same function also has a bit-precise contract: run-time safety is decided there, over machine integers
		return
	}
	vc.safeSeq[kind]++
	name := vc.oblName("safe", fmt.Sprintf("%s@%d", kind, vc.safeSeq[kind]))
	vc.addObl(&Obl{Name: name, Kind: "safe", Pos: vc.eng.fset.Position(pos), PC: pc, Goal: goal, Clause: what})
}

// bitsTwin: the function under verification also carries a (non-inline) bit-precise contract.
func (vc *VC) bitsTwin() bool {
	for _, c := range vc.eng.contractsOf(vc.fn) {
		if c.Mode == "bits" && !c.Inline && !c.Trusted {
			return true
		}
	}
	return false
}

func (f *Frame) loopHead(li *loopInfo, b *ssa.BasicBlock, edges []Edge, pc string, st *State) (string, *State) {
	vc := f.vc
	f.curHead = b
	defer func() { f.curHead = nil }()
	var spec *LoopSpec
	if f.con != nil {
		spec = f.con.Loops[li.ordinal]
	}
	// range loops: the hidden index starts at -1 and only grows (automatic invariant, checked like any other)
	for _, ins := range b.Instrs {
		phi, ok := ins.(*ssa.Phi)
		if !ok {
			break
		}
		if phi.Comment == "rangeindex" {
			txt := "(and (bvsle (int -1) rangeindex) (bvslt rangeindex (int 0x4000000000000000)))"
			if vc.mode == Math {
				txt = "(and (<= (- 1) rangeindex) (< rangeindex 4611686018427387904))"
			}
			ex, _ := parseSexp(txt)
			auto := Clause{Labels: []string{"auto.rangeindex"}, Expr: ex, Text: txt}
			ns := &LoopSpec{}
			if spec != nil {
				ns.Invariants = append(ns.Invariants, spec.Invariants...)
				ns.Steps = spec.Steps
				ns.Decreases = spec.Decreases
			}
			ns.Invariants = append([]Clause{auto}, ns.Invariants...)
			spec = ns
			li.autoSpec = ns
		}
	}
	pos := b.Instrs[0].Pos()
	if pos == token.NoPos {
		for _, ins := range b.Instrs {
			if ins.Pos() != token.NoPos {
				pos = ins.Pos()
				break
			}
		}
	}
	// 1. invariants hold on entry
	if spec != nil && vc.eng.tier != "thorough" {
		// clauses of the thorough tier do not exist in the quick tier (neither checked nor assumed)
		ns := &LoopSpec{Decreases: spec.Decreases}
		for _, c := range spec.Invariants {
			if c.Tier != "thorough" {
				ns.Invariants = append(ns.Invariants, c)
			}
		}
		for _, c := range spec.Steps {
			if c.Tier != "thorough" {
				ns.Steps = append(ns.Steps, c)
			}
		}
		spec = ns
		li.autoSpec = ns
	}
	if spec != nil {
		for i, inv := range spec.Invariants {
			env := f.env(st, f.entrySt, nil)
			t, err := env.eval(inv.Expr)
			if err != nil {
				vc.failObl(vc.oblName(fmt.Sprintf("inv%d", li.ordinal), fmt.Sprintf("entry#%d", i)), inv, err)
				continue
			}
			vc.addObl(&Obl{Name: vc.oblName(fmt.Sprintf("inv%d", li.ordinal), fmt.Sprintf("entry#%d%s", i, labelSuffix(inv.Labels))), Kind: "inv-entry", Labels: inv.Labels,
				Pos: vc.eng.fset.Position(pos), PC: pc, Goal: t, Clause: inv.Text, Tier: inv.Tier})
		}
	}
	// 2. havoc everything the loop may write
	f.havocLoop(li, st, pc)
	// phis
	for _, ins := range b.Instrs {
		phi, ok := ins.(*ssa.Phi)
		if !ok {
			break
		}
		old := f.vals[phi]
		if old.T == "" && (old.P != nil || old.F != nil) {
			// loop-carried static pointer: must be the same on all edges; checked at back edge
			continue
		}
		nv := SV{T: vc.decl("loop_"+sanitize(phi.Comment), vc.S.sortOf(phi.Type())), Typ: phi.Type(), Lnk: old.Lnk}
		vc.assumeWF(pc, nv.T, phi.Type(), st, 0)
		f.vals[phi] = nv
	}
	// 3. assume invariants
	if spec != nil {
		for _, inv := range spec.Invariants {
			env := f.env(st, f.entrySt, nil)
			t, err := env.eval(inv.Expr)
			if err == nil {
				vc.assume(pc, t)
			}
		}
		if spec.Decreases != nil {
			env := f.env(st, f.entrySt, nil)
			t, err := env.eval(spec.Decreases.Expr)
			if err == nil {
				li.decEntry = vc.def("variant", vc.variantSort(), t)
			} else {
				vc.failObl(vc.oblName(fmt.Sprintf("inv%d", li.ordinal), "decreases"), *spec.Decreases, err)
			}
		}
	}
	li.headPC = pc
	li.headState = st.clone()
	return pc, st
}

func (vc *VC) variantSort() string {
	if vc.mode == Math {
		return "Int"
	}
	return "(_ BitVec 64)"
}

func labelSuffix(labels []string) string {
	if len(labels) == 0 {
		return ""
	}
	return ":" + strings.Join(labels, ",")
}

func (vc *VC) failObl(name string, cl Clause, err error) {
	vc.addObl(&Obl{Name: name, Kind: "subset", Labels: cl.Labels, PC: "true", Goal: "false", Clause: cl.Text, Failed: err.Error()})
}

// backEdge checks invariant preservation when control returns to the loop head.
func (f *Frame) backEdge(li *loopInfo, from *ssa.BasicBlock, pc string, st *State) {
	vc := f.vc
	f.curHead = li.head
	defer func() { f.curHead = nil }()
	var spec *LoopSpec
	if f.con != nil {
		spec = f.con.Loops[li.ordinal]
	}
	if li.autoSpec != nil {
		spec = li.autoSpec
	}
	if spec == nil {
		return
	}
	// bind phis to their back-edge values
	saved := map[*ssa.Phi]SV{}
	predIdx := -1
	for i, p := range li.head.Preds {
		if p == from {
			predIdx = i
		}
	}
	for _, ins := range li.head.Instrs {
		phi, ok := ins.(*ssa.Phi)
		if !ok {
			break
		}
		saved[phi] = f.vals[phi]
	}
	newVals := map[*ssa.Phi]SV{}
	for phi := range saved {
		newVals[phi] = f.val(phi.Edges[predIdx])
	}
	for phi, v := range newVals {
		if saved[phi].T == "" && (saved[phi].P != nil) {
			if !samePtr(saved[phi].P, v.P) {
				vc.unsupported(phi.Pos(), "loop-carried pointer changes target")
			}
			continue
		}
		f.vals[phi] = v
	}
	pos := vc.eng.fset.Position(from.Instrs[len(from.Instrs)-1].Pos())
	for i, inv := range spec.Invariants {
		env := f.env(st, f.entrySt, nil)
		t, err := env.eval(inv.Expr)
		if err != nil {
			vc.failObl(vc.oblName(fmt.Sprintf("inv%d", li.ordinal), fmt.Sprintf("preserved#%d", i)), inv, err)
			continue
		}
		vc.addObl(&Obl{Name: vc.oblName(fmt.Sprintf("inv%d", li.ordinal), fmt.Sprintf("preserved#%d%s@b%d", i, labelSuffix(inv.Labels), from.Index)), Kind: "inv-preserved", Labels: inv.Labels,
			Pos: pos, PC: pc, Goal: t, Clause: inv.Text, Tier: inv.Tier})
	}
	for i, stp := range spec.Steps {
		env := f.env(st, f.entrySt, nil)
		env.headState = li.headState
		f.headVals = saved
		t, err := env.eval(stp.Expr)
		f.headVals = nil
		name := vc.oblName(fmt.Sprintf("inv%d", li.ordinal), fmt.Sprintf("step#%d%s@b%d", i, labelSuffix(stp.Labels), from.Index))
		if err != nil {
			vc.failObl(name, stp, err)
			continue
		}
		vc.addObl(&Obl{Name: name, Kind: "inv-preserved", Labels: stp.Labels, Pos: pos, PC: pc, Goal: t, Clause: stp.Text, Tier: stp.Tier})
	}
	if spec.Decreases != nil && li.decEntry != "" {
		env := f.env(st, f.entrySt, nil)
		t, err := env.eval(spec.Decreases.Expr)
		if err == nil {
			var goal string
			if vc.mode == Math {
				goal = fmt.Sprintf("(and (<= 0 %s) (< %s %s))", li.decEntry, t, li.decEntry)
			} else {
				goal = fmt.Sprintf("(and (bvsle #x0000000000000000 %s) (bvslt %s %s))", li.decEntry, t, li.decEntry)
			}
			vc.addObl(&Obl{Name: vc.oblName(fmt.Sprintf("inv%d", li.ordinal), fmt.Sprintf("decreases@b%d", from.Index)), Kind: "decreases", Labels: spec.Decreases.Labels,
				Pos: pos, PC: pc, Goal: goal, Clause: spec.Decreases.Text})
		}
	}
	for phi, v := range saved {
		f.vals[phi] = v
	}
}

// havocLoop replaces everything the loop body may write by fresh values.
func (f *Frame) havocLoop(li *loopInfo, st *State, pc string) {
	vc := f.vc
	e := newEffects()
	e.KeepAllocs = true
	var blocks []*ssa.BasicBlock
	for b := range li.blocks {
		blocks = append(blocks, b)
	}
	sort.Slice(blocks, func(i, j int) bool { return blocks[i].Index < blocks[j].Index })
	for _, b := range blocks {
		vc.eng.scanBlock(f.fn, b, e)
	}
	if len(e.Unknown) > 0 {
		// conservative: havoc every object and memory
		var objs []*Obj
		for o := range st.objs {
			objs = append(objs, o)
		}
		sort.Slice(objs, func(i, j int) bool { return objs[i].id < objs[j].id })
		for _, o := range objs {
			f.havocPtr(st, &Ptr{obj: o, typ: o.typ}, pc)
		}
		for es, mn := range vc.S.memSorts {
			st.mem[mn] = vc.decl(sanitize(mn), vc.S.memSort(es))
		}
	}
	var keys []string
	for k := range e.Roots {
		keys = append(keys, k)
	}
	sort.Strings(keys)
	for _, k := range keys {
		r := e.Roots[k]
		if len(r.path) > 0 && r.path[0] == -3 {
			// elements of a slice parameter of this function: the whole memory of that element type
			if r.elem != nil {
				e.Mems[r.elem.String()] = r.elem
			}
			continue
		}
		p := f.rootPtr(r)
		if p == nil {
			if r.kind == "alloc" {
				continue // a local created inside the loop body: fresh in every iteration
			}
			vc.unsupported(li.head.Instrs[0].Pos(), "loop writes through unresolved root %s", r)
			continue
		}
		f.havocPtr(st, p, pc)
	}
	var mk []string
	for k := range e.Mems {
		mk = append(mk, k)
	}
	sort.Strings(mk)
	for _, k := range mk {
		t := e.Mems[k]
		mn := vc.memName(t)
		vc.memTerm(st, t)
		st.mem[mn] = vc.decl(sanitize(mn), vc.S.memSort(vc.S.sortOf(t)))
	}
	var ik []string
	for k := range e.Ifaces {
		ik = append(ik, k)
	}
	sort.Strings(ik)
	for _, k := range ik {
		vc.havocIface(st, k)
	}
	if e.Allocs {
		old := vc.nextR(st)
		n := vc.decl("nextR", "Int")
		vc.assume(pc, fmt.Sprintf("(>= %s %s)", n, old))
		st.ghost["nextR"] = n
	}
}

// rootPtr maps a syntactic root (in this frame's function) to a static pointer.
func (f *Frame) rootPtr(r Root) *Ptr {
	var base *Ptr
	switch r.kind {
	case "param", "freevar", "alloc":
		sv, ok := f.vals[r.val]
		if r.kind == "alloc" && !ok {
			return nil
		}
		if !ok {
			sv = f.val(r.val)
		}
		base = sv.P
	case "global":
		o := f.vc.globalObj(r.glob)
		base = &Ptr{obj: o, typ: o.typ}
	}
	if base == nil {
		return nil
	}
	p := base
	for _, fi := range r.path {
		if fi < 0 {
			break
		}
		st, ok := p.typ.Underlying().(*types.Struct)
		if !ok {
			break
		}
		p = p.extend(Step{Field: fi}, st.Field(fi).Type())
	}
	return p
}

// havocPtr assigns a fresh value to the location p.
func (f *Frame) havocPtr(st *State, p *Ptr, pc string) {
	vc := f.vc
	if p.obj != nil {
		cur, ok := st.objs[p.obj]
		if ok && len(p.path) == 0 && (cur.T == "" && (cur.P != nil || cur.F != nil)) {
			return // static pointer cell: kept (checked elsewhere)
		}
	}
	nv := SV{T: vc.decl("havoc_"+sanitize(ptrName(p)), vc.S.sortOf(p.typ)), Typ: p.typ}
	vc.assumeWF(pc, nv.T, p.typ, st, 0)
	vc.store(st, p, nv)
}

func ptrName(p *Ptr) string {
	if p.obj != nil {
		return p.obj.name
	}
	return "elem"
}

func (vc *VC) havocIface(st *State, short string) {
	tr := "tr." + short
	if srt := vc.ifaceTraceSort(short); srt != "" {
		vc.ghostTerm(st, tr, srt, "")
		st.ghost[tr] = vc.decl(sanitize(tr), srt)
	}
	for name, srt := range vc.eng.monSorts {
		if vc.eng.monIface[name] == short && vc.monActive(name) {
			vc.ghostTerm(st, name, srt, "")
			st.ghost[name] = vc.decl(sanitize(name), srt)
		}
	}
}

func (f *Frame) execBlock(b *ssa.BasicBlock, pc string, st *State) {
	vc := f.vc
	f.curBlock = b
	for _, ins := range b.Instrs {
		switch x := ins.(type) {
		case *ssa.Phi, *ssa.DebugRef:
			continue
		case *ssa.If:
			c := f.val(x.Cond).T
			f.flow(b, b.Succs[0], vc.def("pc", "Bool", and(pc, c)), st)
			f.flow(b, b.Succs[1], vc.def("pc", "Bool", and(pc, not(c))), st)
			return
		case *ssa.Jump:
			f.flow(b, b.Succs[0], pc, st)
			return
		case *ssa.Return:
			var vals []SV
			for _, r := range x.Results {
				vals = append(vals, f.val(r))
			}
			f.rets = append(f.rets, Ret{pc: pc, vals: vals, st: st})
			return
		case *ssa.Panic:
			vc.safety(x.Pos(), pc, "panic", "false", "reachable panic")
			return
		default:
			f.exec(ins, pc, st)
		}
	}
}

func (f *Frame) flow(from, to *ssa.BasicBlock, pc string, st *State) {
	if pc == "false" {
		return
	}
	if f.unwinding != nil && f.unwinding.blocks[to] {
		pos := from.Instrs[len(from.Instrs)-1].Pos()
		f.vc.safety(pos, pc, "unwind", "false", fmt.Sprintf("loop %d runs at most %d iterations (unwinding assertion)", f.unwinding.ordinal, f.unwindBound))
		return
	}
	if f.unrolling != nil && to == f.unrolling.head && f.unrolling.blocks[from] {
		f.backEdges = append(f.backEdges, Edge{from: from, pc: pc, st: st})
		return
	}
	if f.isBackEdge(from, to) {
		f.backEdge(f.loops[to], from, pc, st)
		return
	}
	e := Edge{from: from, pc: pc, st: st}
	if f.unrolling != nil && f.unrolling.blocks[from] && !f.unrolling.blocks[to] {
		// leaving an unrolled loop: snapshot the values used after it
		e.esc = map[ssa.Value]SV{}
		for _, el := range f.loopEsc {
			if el.li == f.unrolling {
				for _, v := range el.vals {
					if sv, ok := f.vals[v]; ok {
						e.esc[v] = sv
					}
				}
			}
		}
	}
	f.in[to] = append(f.in[to], e)
}

func (f *Frame) set(v ssa.Value, sv SV) {
	if sv.Typ == nil {
		sv.Typ = v.Type()
	}
	if sv.T != "" && len(sv.Tup) == 0 {
		srt := f.vc.S.sortOf(v.Type())
		if !strings.Contains(srt, "?") {
			sv.T = f.vc.def(f.prefix+"."+v.Name(), srt, sv.T)
		}
	}
	f.vals[v] = sv
}

func (f *Frame) exec(ins ssa.Instruction, pc string, st *State) {
	vc := f.vc
	switch x := ins.(type) {
	case *ssa.Alloc:
		elem := x.Type().(*types.Pointer).Elem()
		name := x.Comment
		if name == "" {
			name = x.Name()
		}
		o := vc.newObj(f.prefix+"."+name, elem, "alloc")
		if isStaticOnly(elem) {
			st.objs[o] = SV{T: "0", Typ: elem}
		} else {
			st.objs[o] = SV{T: vc.S.zero(elem), Typ: elem}
		}
		f.vals[x] = SV{P: &Ptr{obj: o, typ: elem}, Typ: x.Type()}
		// an array that is sliced somewhere is made region-backed at once, so that all paths agree on its region
		if arr, isArr := elem.Underlying().(*types.Array); isArr && x.Referrers() != nil {
			for _, r := range *x.Referrers() {
				if sl, ok := r.(*ssa.Slice); ok && sl.X == x {
					l := f.link(st, f.vals[x].P, arr.Elem())
					if x.Comment == "slicelit" || x.Comment == "makeslice" {
						l.heap = true
					}
					break
				}
			}
		}
	case *ssa.BinOp:
		f.set(x, vc.binop(x.Pos(), x.Op, f.val(x.X), f.val(x.Y), x.X.Type(), x.Y.Type(), x.Type(), pc))
	case *ssa.UnOp:
		if x.Op == token.MUL {
			p := f.val(x.X)
			if p.P == nil {
				vc.unsupported(x.Pos(), "load through unresolved pointer %s", x.X.Name())
				f.set(x, SV{T: vc.decl("load", vc.S.sortOf(x.Type()))})
				return
			}
			v := vc.load(st, p.P)
			v.Typ = x.Type()
			if v.T != "" {
				f.set(x, v)
			} else {
				f.vals[x] = v
			}
			return
		}
		f.set(x, vc.unop(x.Pos(), x.Op, f.val(x.X), x.Type()))
	case *ssa.Convert:
		if sl, ok := x.Type().Underlying().(*types.Slice); ok && isString(x.X.Type()) {
			if b, isB := sl.Elem().Underlying().(*types.Basic); isB && b.Kind() == types.Uint8 {
				// []byte(s): a fresh region holding the bytes of s
				sv := f.val(x.X)
				r := vc.freshRegion(st)
				mn := vc.memName(sl.Elem())
				m := vc.memTerm(st, sl.Elem())
				st.mem[mn] = vc.def("mem", vc.S.memSort(vc.S.sortOf(sl.Elem())), fmt.Sprintf("(store %s %s (gostr.arr %s))", m, r, sv.T))
				f.set(x, SV{T: fmt.Sprintf("(mk-Slice %s %s (gostr.len %s) (gostr.len %s))", r, vc.S.idxLit(0), sv.T, sv.T)})
				return
			}
		}
		f.set(x, vc.convert(x.Pos(), f.val(x.X), x.X.Type(), x.Type()))
	case *ssa.ChangeType:
		v := f.val(x.X)
		v.Typ = x.Type()
		f.vals[x] = v
	case *ssa.ChangeInterface:
		v := f.val(x.X)
		v.Typ = x.Type()
		f.vals[x] = v
	case *ssa.MakeInterface:
		f.set(x, vc.makeIface(f.val(x.X), x.X.Type()))
	case *ssa.TypeAssert:
		f.typeAssert(x, pc)
	case *ssa.Extract:
		t := f.val(x.Tuple)
		if x.Index < len(t.Tup) {
			f.vals[x] = t.Tup[x.Index]
		} else {
			vc.unsupported(x.Pos(), "extract from non-tuple")
			f.set(x, SV{T: vc.decl("ext", vc.S.sortOf(x.Type()))})
		}
	case *ssa.Field:
		base := f.val(x.X)
		t, ty := vc.readPath(base.T, x.X.Type(), []Step{{Field: x.Field}})
		f.set(x, SV{T: t, Typ: ty})
	case *ssa.FieldAddr:
		p := f.val(x.X)
		if p.P == nil {
			vc.unsupported(x.Pos(), "field address through unresolved pointer %s", x.X.Name())
			f.vals[x] = SV{Typ: x.Type()}
			return
		}
		st0 := p.P.typ.Underlying().(*types.Struct)
		f.vals[x] = SV{P: p.P.extend(Step{Field: x.Field}, st0.Field(x.Field).Type()), Typ: x.Type()}
	case *ssa.Index:
		base := f.val(x.X)
		ix := vc.toIdx(f.val(x.Index), x.Index.Type())
		switch u := x.X.Type().Underlying().(type) {
		case *types.Array:
			vc.safety(x.Pos(), pc, "index", vc.inBounds(ix, vc.S.idxLit(u.Len()), x.Index.Type()), "array index in range")
			f.set(x, SV{T: fmt.Sprintf("(select %s %s)", base.T, ix)})
		case *types.Basic: // string
			vc.safety(x.Pos(), pc, "index", vc.inBounds(ix, fmt.Sprintf("(gostr.len %s)", base.T), x.Index.Type()), "string index in range")
			f.set(x, SV{T: fmt.Sprintf("(select (gostr.arr %s) %s)", base.T, ix)})
		default:
			vc.unsupported(x.Pos(), "index on %s", x.X.Type())
		}
	case *ssa.Lookup:
		base := f.val(x.X)
		if isString(x.X.Type()) {
			ix := vc.toIdx(f.val(x.Index), x.Index.Type())
			vc.safety(x.Pos(), pc, "index", vc.inBounds(ix, fmt.Sprintf("(gostr.len %s)", base.T), x.Index.Type()), "string index in range")
			f.set(x, SV{T: fmt.Sprintf("(select (gostr.arr %s) %s)", base.T, ix)})
		} else {
			vc.unsupported(x.Pos(), "map lookup")
			f.set(x, SV{T: vc.decl("lookup", vc.S.sortOf(x.Type()))})
		}
	case *ssa.IndexAddr:
		f.indexAddr(x, pc, st)
	case *ssa.Slice:
		f.sliceOp(x, pc, st)
	case *ssa.MakeSlice:
		r := vc.freshRegion(st)
		ln := f.val(x.Len).T
		cp := f.val(x.Cap).T
		el := x.Type().Underlying().(*types.Slice).Elem()
		zeroArr := fmt.Sprintf("((as const (Array %s %s)) %s)", vc.S.idxSort(), vc.S.sortOf(el), vc.S.zero(el))
		mn := vc.memName(el)
		m := vc.memTerm(st, el)
		st.mem[mn] = vc.def("mem", vc.S.memSort(vc.S.sortOf(el)), fmt.Sprintf("(store %s %s %s)", m, r, zeroArr))
		if vc.mode == Bits {
			vc.safety(x.Pos(), pc, "makeslice", fmt.Sprintf("(and (bvsle #x0000000000000000 %s) (bvsle %s %s) (bvslt %s #x0000800000000000))", ln, ln, cp, cp), "make: len/cap in range")
		} else {
			vc.safety(x.Pos(), pc, "makeslice", fmt.Sprintf("(and (<= 0 %s) (<= %s %s))", ln, ln, cp), "make: len/cap in range")
		}
		f.set(x, SV{T: fmt.Sprintf("(mk-Slice %s %s %s %s)", r, vc.S.idxLit(0), ln, cp)})
	case *ssa.MakeClosure:
		var b []SV
		for _, v := range x.Bindings {
			b = append(b, f.val(v))
		}
		fn := x.Fn.(*ssa.Function)
		f.vals[x] = SV{F: &FnVal{fn: fn, bindings: b}, T: fmt.Sprintf("%d", vc.fnID(fn)), Typ: x.Type()}
	case *ssa.Store:
		p := f.val(x.Addr)
		if p.P == nil {
			vc.unsupported(x.Pos(), "store through unresolved pointer %s", x.Addr.Name())
			return
		}
		v := f.val(x.Val)
		vc.store(st, p.P, v)
	case *ssa.Call:
		f.call(x, pc, st)
	case *ssa.RunDefers:
		// no defers in the supported subset (Defer is rejected)
	case *ssa.Defer, *ssa.Go, *ssa.Send, *ssa.Select, *ssa.MakeChan, *ssa.MakeMap, *ssa.MapUpdate, *ssa.Range, *ssa.Next:
		vc.unsupported(ins.Pos(), "instruction outside the supported subset: %T", ins)
		if v, ok := ins.(ssa.Value); ok {
			f.vals[v] = SV{T: vc.decl("unsup", vc.S.sortOf(v.Type())), Typ: v.Type()}
			if tup, ok := v.Type().(*types.Tuple); ok {
				sv := SV{Typ: v.Type()}
				for i := 0; i < tup.Len(); i++ {
					sv.Tup = append(sv.Tup, SV{T: vc.decl("unsup", vc.S.sortOf(tup.At(i).Type())), Typ: tup.At(i).Type()})
				}
				f.vals[v] = sv
			}
		}
	default:
		vc.unsupported(ins.Pos(), "instruction %T", ins)
		if v, ok := ins.(ssa.Value); ok {
			f.vals[v] = SV{T: vc.decl("unsup", vc.S.sortOf(v.Type())), Typ: v.Type()}
		}
	}
}

// toIdx converts an integer value of Go type t to the index sort.
func (vc *VC) toIdx(v SV, t types.Type) string {
	if vc.mode == Math {
		return v.T
	}
	bits, signed, _ := isInt(t)
	switch {
	case bits == 64:
		return v.T
	case signed:
		return fmt.Sprintf("((_ sign_extend %d) %s)", 64-bits, v.T)
	default:
		return fmt.Sprintf("((_ zero_extend %d) %s)", 64-bits, v.T)
	}
}

// inBounds: 0 <= ix < n (index sort).
func (vc *VC) inBounds(ix, n string, t types.Type) string {
	if vc.mode == Math {
		return fmt.Sprintf("(and (<= 0 %s) (< %s %s))", ix, ix, n)
	}
	// lengths are < 2^47 so an unsigned comparison also excludes negative indices
	return fmt.Sprintf("(bvult %s %s)", ix, n)
}

func (f *Frame) indexAddr(x *ssa.IndexAddr, pc string, st *State) {
	vc := f.vc
	ix := vc.toIdx(f.val(x.Index), x.Index.Type())
	ix = vc.def("ix", vc.S.idxSort(), ix)
	switch u := x.X.Type().Underlying().(type) {
	case *types.Slice:
		s := f.val(x.X)
		vc.safety(x.Pos(), pc, "index", vc.inBounds(ix, fmt.Sprintf("(s.len %s)", s.T), x.Index.Type()), "slice index in range")
		f.vals[x] = SV{P: &Ptr{sl: s.T, idx: ix, elemT: u.Elem(), typ: u.Elem()}, Typ: x.Type()}
	case *types.Pointer:
		arr := u.Elem().Underlying().(*types.Array)
		p := f.val(x.X)
		vc.safety(x.Pos(), pc, "index", vc.inBounds(ix, vc.S.idxLit(arr.Len()), x.Index.Type()), "array index in range")
		if p.P == nil {
			vc.unsupported(x.Pos(), "index address through unresolved pointer")
			f.vals[x] = SV{Typ: x.Type()}
			return
		}
		f.vals[x] = SV{P: p.P.extend(Step{Field: -1, Idx: ix}, arr.Elem()), Typ: x.Type()}
	default:
		vc.unsupported(x.Pos(), "index address on %s", x.X.Type())
	}
}

func (vc *VC) idxAdd(a, b string) string {
	if vc.mode == Math {
		return fmt.Sprintf("(+ %s %s)", a, b)
	}
	if f, ok := foldBV(token.ADD, a, b, 64, true); ok {
		return f
	}
	if b == "#x0000000000000000" {
		return a
	}
	return fmt.Sprintf("(bvadd %s %s)", a, b)
}

func (vc *VC) idxSub(a, b string) string {
	if vc.mode == Math {
		return fmt.Sprintf("(- %s %s)", a, b)
	}
	if f, ok := foldBV(token.SUB, a, b, 64, true); ok {
		return f
	}
	if b == "#x0000000000000000" {
		return a
	}
	return fmt.Sprintf("(bvsub %s %s)", a, b)
}

func (vc *VC) idxLe(a, b string) string {
	if vc.mode == Math {
		return fmt.Sprintf("(<= %s %s)", a, b)
	}
	return fmt.Sprintf("(bvule %s %s)", a, b)
}

func (f *Frame) sliceOp(x *ssa.Slice, pc string, st *State) {
	vc := f.vc
	get := func(v ssa.Value) (string, int64, bool) {
		if v == nil {
			return "", 0, false
		}
		if c, ok := v.(*ssa.Const); ok && c.Value != nil {
			return vc.toIdx(f.val(v), v.Type()), c.Int64(), true
		}
		return vc.toIdx(f.val(v), v.Type()), -1, true
	}
	lo, loC, hasLo := get(x.Low)
	hi, hiC, hasHi := get(x.High)
	mx, _, hasMax := get(x.Max)
	zero := vc.S.idxLit(0)
	if !hasLo {
		lo, loC = zero, 0
	}
	switch u := x.X.Type().Underlying().(type) {
	case *types.Slice:
		s := f.val(x.X)
		if !hasHi {
			hi = fmt.Sprintf("(s.len %s)", s.T)
		}
		capT := fmt.Sprintf("(s.cap %s)", s.T)
		if !hasMax {
			mx = capT
		}
		vc.safety(x.Pos(), pc, "slice", and(vc.idxLe(lo, hi), vc.idxLe(hi, mx), vc.idxLe(mx, capT)), "slice bounds in range")
		res := SV{T: fmt.Sprintf("(mk-Slice (s.rgn %s) %s %s %s)", s.T, vc.idxAdd(fmt.Sprintf("(s.off %s)", s.T), lo), vc.idxSub(hi, lo), vc.idxSub(mx, lo)), Lnk: s.Lnk}
		if hasHi && hiC >= 0 && loC >= 0 {
			res.SLen = int(hiC-loC) + 1
		} else if !hasHi && s.SLen > 0 && loC >= 0 {
			res.SLen = s.SLen - int(loC)
			if res.SLen < 1 {
				res.SLen = 0
			}
		}
		f.set(x, res)
	case *types.Basic: // string
		s := f.val(x.X)
		if !hasHi {
			hi = fmt.Sprintf("(gostr.len %s)", s.T)
		}
		vc.safety(x.Pos(), pc, "slice", and(vc.idxLe(lo, hi), vc.idxLe(hi, fmt.Sprintf("(gostr.len %s)", s.T))), "string slice bounds in range")
		// substring: shifted contents
		n := vc.decl("substr", "Str")
		i := "(_i " + vc.S.idxSort() + ")"
		_ = i
		vc.assume(pc, fmt.Sprintf("(= (gostr.len %s) %s)", n, vc.idxSub(hi, lo)))
		// the first 8 bytes are related explicitly (enough for verb dispatch); the rest through str.sub
		for k := int64(0); k < 4; k++ {
			vc.assume(pc, fmt.Sprintf("(= (select (gostr.arr %s) %s) (select (gostr.arr %s) %s))", n, vc.S.idxLit(k), s.T, vc.idxAdd(lo, vc.S.idxLit(k))))
		}
		vc.assum["substring contents beyond the first 4 bytes are unconstrained"] = true
		f.set(x, SV{T: n})
	case *types.Pointer:
		arr := u.Elem().Underlying().(*types.Array)
		p := f.val(x.X)
		n := vc.S.idxLit(arr.Len())
		if !hasHi {
			hi, hiC = n, arr.Len()
		}
		if !hasMax {
			mx = n
		}
		vc.safety(x.Pos(), pc, "slice", and(vc.idxLe(lo, hi), vc.idxLe(hi, mx), vc.idxLe(mx, n)), "array slice bounds in range")
		if p.P == nil || p.P.obj == nil {
			vc.unsupported(x.Pos(), "slicing an array through an unresolved pointer")
			f.set(x, SV{T: vc.decl("slice", "Slice")})
			return
		}
		lk := f.link(st, p.P, arr.Elem())
		res := SV{T: fmt.Sprintf("(mk-Slice %s %s %s %s)", lk.rid, lo, vc.idxSub(hi, lo), vc.idxSub(mx, lo)), Lnk: p.P}
		if hiC >= 0 && loC >= 0 {
			res.SLen = int(hiC-loC) + 1
		}
		f.set(x, res)
	default:
		vc.unsupported(x.Pos(), "slice of %s", x.X.Type())
	}
}

// link makes the addressable array at p region-backed (idempotent).
func (f *Frame) link(st *State, p *Ptr, elem types.Type) *Link {
	vc := f.vc
	k := p.key()
	if l, ok := st.links[k]; ok {
		return l
	}
	// current contents of the array become the region's contents
	cur := vc.load(st, p)
	r := vc.freshRegion(st)
	mn := vc.memName(elem)
	m := vc.memTerm(st, elem)
	st.mem[mn] = vc.def("mem", vc.S.memSort(vc.S.sortOf(elem)), fmt.Sprintf("(store %s %s %s)", m, r, cur.T))
	l := &Link{ptr: p, rid: r, elem: elem}
	st.links[k] = l
	return l
}

func (vc *VC) tid(t types.Type) int {
	if b, ok := t.(*types.Basic); ok && b.Kind() < types.UntypedBool {
		t = types.Typ[b.Kind()] // byte and uint8, rune and int32 are one dynamic type
	}
	k := t.String()
	if id, ok := vc.eng.tidIDs[k]; ok {
		return id
	}
	id := len(vc.eng.tidIDs) + 1
	vc.eng.tidIDs[k] = id
	vc.eng.tidNames[id] = k
	return id
}

// makeIface boxes a concrete value into an interface value.
func (vc *VC) makeIface(v SV, t types.Type) SV {
	tid := vc.tid(t)
	var payload string
	switch {
	case v.T == "" || isStaticOnly(t):
		payload = vc.ptrTerm(v)
	default:
		srt := vc.S.sortOf(t)
		if srt == "Int" {
			payload = v.T
		} else {
			payload = fmt.Sprintf("(%s %s)", vc.boxFn(t), v.T)
		}
	}
	return SV{T: fmt.Sprintf("(mk-Iface %d %s)", tid, payload)}
}

// boxFn declares (once) an injective boxing function for values of type t.
func (vc *VC) boxFn(t types.Type) string {
	srt := vc.S.sortOf(t)
	name := "box." + sanitize(strings.NewReplacer("(", "", ")", "", " ", "_").Replace(srt))
	if !vc.declaredGhost[name] {
		vc.declaredGhost[name] = true
		vc.prependDecl(fmt.Sprintf("(declare-fun un%s (Int) %s)", name, srt))
		vc.prependDecl(fmt.Sprintf("(declare-fun %s (%s) Int)", name, srt))
	}
	return name
}

// unboxTerm: the value of Go type t held by interface term it (meaningful when its dynamic type is t).
// Unboxing is the inverse of boxing: the axiom is added the first time a VC unboxes a value of this sort.
func (vc *VC) unboxTerm(it string, t types.Type) string {
	srt := vc.S.sortOf(t)
	if srt == "Int" {
		return fmt.Sprintf("(if.val %s)", it)
	}
	bf := vc.boxFn(t)
	if !vc.declaredGhost["ax."+bf] {
		vc.declaredGhost["ax."+bf] = true
		vc.assume("true", fmt.Sprintf("(forall ((x!b %s)) (! (= (un%s (%s x!b)) x!b) :pattern ((%s x!b))))", srt, bf, bf, bf))
	}
	return fmt.Sprintf("(un%s (if.val %s))", bf, it)
}

func (f *Frame) typeAssert(x *ssa.TypeAssert, pc string) {
	vc := f.vc
	v := f.val(x.X)
	if _, isIface := x.AssertedType.Underlying().(*types.Interface); isIface {
		// interface-to-interface assertion: succeeds iff dynamic type implements it; not modelled.
		ok := vc.decl("assert_ok", "Bool")
		if !x.CommaOk {
			vc.safety(x.Pos(), pc, "typeassert", ok, "type assertion succeeds")
			f.set(x, SV{T: v.T})
			return
		}
		f.vals[x] = SV{Typ: x.Type(), Tup: []SV{{T: ite(ok, v.T, "nil.Iface"), Typ: x.AssertedType}, {T: ok, Typ: types.Typ[types.Bool]}}}
		return
	}
	tid := vc.tid(x.AssertedType)
	ok := fmt.Sprintf("(= (if.tid %s) %d)", v.T, tid)
	srt := vc.S.sortOf(x.AssertedType)
	var val string
	if srt == "Int" {
		val = fmt.Sprintf("(if.val %s)", v.T)
	} else {
		val = vc.unboxTerm(v.T, x.AssertedType)
	}
	if !x.CommaOk {
		vc.safety(x.Pos(), pc, "typeassert", ok, "type assertion succeeds")
		f.set(x, SV{T: val})
		return
	}
	f.vals[x] = SV{Typ: x.Type(), Tup: []SV{{T: ite(ok, val, vc.S.zero(x.AssertedType)), Typ: x.AssertedType}, {T: ok, Typ: types.Typ[types.Bool]}}}
}

var _ = big.NewInt
