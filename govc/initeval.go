package main

import (
	"fmt"
	"go/types"
	"sort"
	"strings"

	"golang.org/x/tools/go/ssa"
)

// evalGlobalInit evaluates the package initialiser of g's package symbolically (once per VC) and
// returns the value g holds after initialisation.
func (vc *VC) evalGlobalInit(g *ssa.Global) (string, bool) {
	if g.Pkg == nil || !strings.HasPrefix(g.Pkg.Pkg.Path(), vc.eng.modPath) {
		return "", false
	}
	if vc.initVals == nil {
		vc.initVals = map[*ssa.Global]string{}
		vc.initDone = map[*ssa.Package]bool{}
	}
	if !vc.initDone[g.Pkg] {
		vc.initDone[g.Pkg] = true
		vc.runInit(g.Pkg)
	}
	t, ok := vc.initVals[g]
	return t, ok
}

func (vc *VC) runInit(pkg *ssa.Package) {
	initFn := pkg.Func("init")
	if initFn == nil || len(initFn.Blocks) == 0 {
		return
	}
	savedLines := vc.lines
	vc.lines = nil
	vc.inInit++
	defer func() { vc.inInit-- }()
	st := newState()
	// every global of the package starts at its zero value
	var globs []*ssa.Global
	for _, m := range pkg.Members {
		if gl, ok := m.(*ssa.Global); ok {
			globs = append(globs, gl)
		}
	}
	sort.Slice(globs, func(i, j int) bool { return globs[i].Name() < globs[j].Name() })
	objs := map[*ssa.Global]*Obj{}
	for _, gl := range globs {
		o, ok := vc.globals[gl]
		if !ok {
			o = vc.newObj(pkg.Pkg.Name()+"."+gl.Name(), gl.Type().(*types.Pointer).Elem(), "global")
			vc.globals[gl] = o
		}
		objs[gl] = o
		if isStaticOnly(o.typ) {
			st.objs[o] = SV{T: "0", Typ: o.typ}
		} else {
			st.objs[o] = SV{T: vc.S.zero(o.typ), Typ: o.typ}
		}
	}
	// storage allocated by initialisers gets negative region ids (distinct from every region of the function under verification)
	vc.initRegions -= 1000
	st.ghost["nextR"] = fmt.Sprintf("(- %d)", -vc.initRegions)
	var pending []pendingRegion
	fr := vc.newFrame(initFn, nil)
	fr.run("true", st)
	if len(fr.rets) > 0 {
		var edges []Edge
		for _, r := range fr.rets {
			edges = append(edges, Edge{pc: r.pc, st: r.st})
		}
		fin := fr.mergeStates(edges, initFn.Pos())
		for _, gl := range globs {
			o := objs[gl]
			if v, ok := fin.objs[o]; ok && v.T != "" {
				if sl, isSlice := o.typ.Underlying().(*types.Slice); isSlice {
					// the region the initialiser filled keeps its contents in the entry memory
					mn := vc.memName(sl.Elem())
					if fm, ok := fin.mem[mn]; ok {
						pending = append(pending, pendingRegion{elem: sl.Elem(), slice: v.T, mem: fm})
					}
				}
				vc.initVals[gl] = v.T
				vc.entry.objs[o] = SV{T: v.T, Typ: o.typ}
			}
		}
	}
	for _, pr := range pending {
		em := vc.memTerm(vc.entry, pr.elem)
		vc.emit("(assert (= (select %s (s.rgn %s)) (select %s (s.rgn %s))))", em, pr.slice, pr.mem, pr.slice)
	}
	captured := vc.lines
	vc.lines = append(captured, savedLines...)
	for _, o := range vc.obls {
		o.Prefix += len(captured)
	}
	vc.assum["package-level variables hold the values their initialisers give them (no later writes: C18 frame sweep)"] = true
}

type pendingRegion struct {
	elem  types.Type
	slice string
	mem   string
}
