package main

func runCheck(eng *Engine, args []string, tier string, timeout, par int) int {
	return 0
}
