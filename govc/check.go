package main

import (
	"encoding/json"
	"fmt"
	"os"
	"path/filepath"
	"sort"
	"strconv"
	"strings"
	"time"

	"golang.org/x/tools/go/ssa"
)

// PropInfo is the static description of a property check (from /verif/props.json).
type PropInfo struct {
	Title     string   `json:"title"`
	DesignRef string   `json:"design_ref"`
	Undecided []string `json:"undecided"`
	Bounded   []string `json:"bounded"`
	DependsOn []string `json:"depends_on"`
	Sweeps    []string `json:"sweeps"`
}

type KnownFinding struct {
	Property   string `json:"property"`
	Obligation string `json:"obligation"`
	What       string `json:"what"`
	Witness    string `json:"witness"`
}

type KnownFile struct {
	Findings []KnownFinding `json:"findings"`
	Fixed    []string       `json:"fixed"`
}

type oblRecord struct {
	Name    string  `json:"name"`
	Kind    string  `json:"kind"`
	Func    string  `json:"function"`
	Reading string  `json:"reading"`
	Result  string  `json:"result"`
	Solver  string  `json:"solver"`
	Seconds float64 `json:"seconds"`
	Clause  string  `json:"clause,omitempty"`
}

func loadJSON(path string, v interface{}) error {
	data, err := os.ReadFile(path)
	if err != nil {
		return err
	}
	return json.Unmarshal(data, v)
}

// contractMentions reports whether the contract has any clause labelled for the property (or a counts directive).
func contractMentions(c *Contract, prop string) bool {
	for _, n := range c.Notes {
		if n == "counts "+prop || strings.HasPrefix(n, "counts ") && containsWord(n, prop) {
			return true
		}
	}
	for _, cl := range c.Requires {
		if hasPropLabel(cl.Labels, prop) {
			return true
		}
	}
	for _, cl := range c.Ensures {
		if hasPropLabel(cl.Labels, prop) {
			return true
		}
	}
	for _, l := range c.Loops {
		for _, cl := range l.Invariants {
			if hasPropLabel(cl.Labels, prop) {
				return true
			}
		}
		for _, cl := range l.Steps {
			if hasPropLabel(cl.Labels, prop) {
				return true
			}
		}
	}
	for _, ac := range c.AtCalls {
		if hasPropLabel(ac.Clause.Labels, prop) {
			return true
		}
	}
	return false
}

func containsWord(s, w string) bool {
	for _, f := range strings.Fields(s) {
		if f == w {
			return true
		}
	}
	return false
}

func runCheck(eng *Engine, args []string, tier string, timeout, par int) int {
	if len(args) != 1 {
		fmt.Fprintln(os.Stderr, "usage: govc check [flags] <property-id>")
		return 2
	}
	prop := args[0]
	start := time.Now()
	seed, _ := strconv.Atoi(os.Getenv("VERIF_SEED"))
	props := map[string]PropInfo{}
	loadJSON(filepath.Join(eng.verif, "props.json"), &props)
	info := props[prop]
	var known KnownFile
	loadJSON(filepath.Join(eng.verif, "known_findings.json"), &known)

	// 1. functions under contract for this property
	type job struct {
		fn  *ssa.Function
		con *Contract
	}
	var jobs []job
	var keys []string
	for k := range eng.cs.ByFunc {
		keys = append(keys, k)
	}
	sort.Strings(keys)
	var missing []string
	for _, k := range keys {
		for _, c := range eng.cs.ByFunc[k] {
			if c.Inline || c.Trusted || !contractMentions(c, prop) {
				continue
			}
			fn := eng.findFunc(c.Pkg, c.Func)
			if fn == nil {
				if strings.HasPrefix(c.File, eng.repo) {
					missing = append(missing, c.Key())
				}
				continue
			}
			for _, cc := range c.cases() {
				jobs = append(jobs, job{fn, cc})
			}
		}
	}
	var all []*Obl
	var funcs []string
	assum := map[string]bool{}
	assumedElsewhere := map[string]bool{}
	genStart := time.Now()
	type vres struct {
		vc  *VC
		idx int
	}
	results := make([]*VC, len(jobs))
	sem := make(chan struct{}, 1) // generation is sequential: the engine's maps are not synchronised
	for i, j := range jobs {
		sem <- struct{}{}
		results[i] = eng.verifyFunc(j.fn, j.con)
		<-sem
	}
	for i, j := range jobs {
		vc := results[i]
		funcs = append(funcs, fmt.Sprintf("%s [%s]", j.fn.String(), vc.mode))
		n := 0
		for _, o := range vc.obls {
			if o.Tier == "thorough" && tier != "thorough" {
				continue
			}
			switch o.Kind {
			case "ensures", "decreases":
				// postconditions are selected by property label. Loop invariants and at-call assertions are not: they are
				// assumed (at the loop head, after the call) by every later obligation of the function, and nothing is
				// assumed in a run that is not also checked in that run - otherwise a clause labelled for another
				// property could mask a violation of this one (a must-fail mutant of C10 survived that way).
				if !clauseCountsFor(o.Labels, prop) {
					continue
				}
			case "inv-preserved":
				// loop step clauses are checked at the back edges and never assumed: selected by label like postconditions
				if strings.Contains(o.Name, "/step#") && !clauseCountsFor(o.Labels, prop) {
					continue
				}
			}
			if j.con.Timeout > 0 {
				o.Timeout = j.con.Timeout
			}
			all = append(all, o)
			n++
		}
		if n == 0 {
			all = append(all, &Obl{Name: vc.oblName("vacuity", "no-obligations"), Kind: "subset", Failed: "function under contract generated no obligation", vc: vc, Func: j.fn.String()})
		}
		for a := range vc.assum {
			assum[a] = true
		}
		for k := range vc.calleesUsed {
			assumedElsewhere[k] = true
		}
	}
	// an at-call assertion that matched no call in any case of its function (callee gone, or it names a local that no
	// longer exists) would otherwise vanish silently
	seenAC := map[string]bool{}
	for _, j := range jobs {
		for _, ac := range j.con.AtCalls {
			k := fmt.Sprintf("%s:%d", ac.Clause.File, ac.Clause.Line)
			if seenAC[k] || eng.acApplied[k] || (ac.Clause.Tier == "thorough" && tier != "thorough") || !clauseCountsFor(ac.Clause.Labels, prop) {
				continue
			}
			seenAC[k] = true
			all = append(all, &Obl{Name: fmt.Sprintf("%s.%s/at-call/%s/never-applied@%d", j.fn.Pkg.Pkg.Name(), j.con.Func, ac.Callee, ac.Clause.Line), Kind: "subset", Labels: ac.Clause.Labels, Clause: ac.Clause.Text,
				Failed: "at-call assertion matched no call (callee not called any more, or a name in it is not in scope at the call)", Func: j.fn.String()})
		}
	}
	for _, m := range missing {
		all = append(all, &Obl{Name: "contract/" + m + "/function-missing", Kind: "subset", Failed: "contract refers to a function that no longer exists", Func: m})
	}
	// 2. spec-only lemmas
	lemmas, lerr := eng.loadLemmas(prop, tier)
	if lerr != nil {
		fmt.Fprintln(os.Stderr, "lemmas:", lerr)
	}
	all = append(all, lemmas...)
	// 3. structural sweeps
	sweepObls, sweepAssum := eng.runSweeps(prop, info)
	all = append(all, sweepObls...)
	for _, a := range sweepAssum {
		assum[a] = true
	}
	genSecs := time.Since(genStart).Seconds()

	outDir := filepath.Join(eng.outBase(), "out", "smt", prop)
	os.RemoveAll(outDir)
	os.MkdirAll(outDir, 0o755)
	var solverObls []*Obl
	for _, o := range all {
		if o.Result == "" {
			solverObls = append(solverObls, o)
		}
	}
	// reachability covers: an at-call assertion, a postcondition or an invariant-preservation step whose path
	// condition is unsatisfiable together with the assumptions collected so far is proved vacuously. Some paths are
	// legitimately dead (split cases, unreachable panics), so a clause fails only when *every* obligation generated
	// from it sits on an infeasible path. One cover per distinct (function VC, path condition).
	type coverKey struct {
		vc *VC
		pc string
	}
	covers := map[coverKey]*Obl{}
	coverOf := map[*Obl]*Obl{}
	for _, o := range all {
		if o.vc == nil || o.Raw != "" || o.Failed != "" || o.Result != "" || o.PC == "" || o.PC == "true" {
			continue
		}
		switch o.Kind {
		case "at-call", "ensures", "inv-preserved":
		default:
			continue
		}
		k := coverKey{o.vc, fmt.Sprintf("%s#%d", o.PC, o.Prefix)}
		c, ok := covers[k]
		if !ok {
			c = &Obl{Name: o.Name + "/reachable", Kind: "cover", Func: o.Func, Mode: o.Mode, PC: o.PC, Goal: "true", ExpectSat: true, Prefix: o.Prefix, vc: o.vc,
				Clause: "the path to this obligation is feasible under the assumptions in force", Timeout: 6}
			covers[k] = c
			solverObls = append(solverObls, c)
		}
		coverOf[o] = c
	}
	dischargeAll(solverObls, outDir, timeout, par)
	// clauses all of whose obligations are unreachable
	type clauseKey struct{ fn, clause, kind string }
	reach := map[clauseKey]bool{}
	first := map[clauseKey]*Obl{}
	var ckeys []clauseKey
	for _, o := range all {
		c := coverOf[o]
		if c == nil {
			continue
		}
		k := clauseKey{o.Func, o.Clause, o.Kind}
		if _, seen := first[k]; !seen {
			first[k] = o
			ckeys = append(ckeys, k)
		}
		if c.Result != "unsat" {
			reach[k] = true
		}
	}
	nCover, nCoverUnsat := len(covers), 0
	for _, c := range covers {
		if c.Result == "unsat" {
			nCoverUnsat++
		}
	}
	for _, k := range ckeys {
		if !reach[k] {
			o := first[k]
			all = append(all, &Obl{Name: o.Name + "/vacuous", Kind: "subset", Func: o.Func, Labels: o.Labels, Clause: o.Clause,
				Failed: "every obligation generated from this clause lies on a path that is infeasible under the assumptions in force (contradictory assumptions or dead code): it would be proved vacuously"})
		}
	}

	// 4. verdicts
	replayDir := filepath.Join(eng.outBase(), "replays", prop)
	os.RemoveAll(replayDir)
	nObl, nOK, nVac, nVacInc := 0, 0, 0, 0
	var recs []oblRecord
	var violations []string
	var knownHit []string
	solverTime := 0.0
	var samples []map[string]string
	for _, o := range all {
		solverTime += o.Seconds
		rec := oblRecord{Name: o.Name, Kind: o.Kind, Func: o.Func, Reading: o.Mode.String(), Result: o.Result, Solver: o.Solver, Seconds: round3(o.Seconds), Clause: o.Clause}
		if o.Kind == "vacuity" {
			nVac++
			if o.Result != "sat" && o.Result != "unsat" {
				nVacInc++
			}
			if !o.ok() {
				violations = append(violations, writeReplay(eng, replayDir, prop, o, "vacuous precondition"))
			}
			recs = append(recs, rec)
			continue
		}
		if o.ok() {
			nObl++
			nOK++
			if len(samples) < 5 && o.SMTFile != "" && (o.Kind == "ensures" || o.Kind == "lemma") {
				if text, err := os.ReadFile(o.SMTFile); err == nil {
					samples = append(samples, map[string]string{"obligation": o.Name, "clause": o.Clause, "smtlib_tail": tailGoal(string(text))})
				}
			}
			recs = append(recs, rec)
			continue
		}
		// failed: known finding?
		isKnown := false
		for _, kf := range known.Findings {
			// a finding is identified by the obligation that fails: its name up to the block / return suffix (so that an
			// unrelated edit that renumbers basic blocks does not turn the finding into an alarm)
			if kf.Property == prop && kf.Obligation != "" && (kf.Obligation == o.Name || strings.HasPrefix(o.Name, kf.Obligation+"@")) {
				isKnown = true
				knownHit = append(knownHit, fmt.Sprintf("KNOWN-FINDING: property=%s %s [%s]", prop, kf.What, kf.Obligation))
			}
		}
		rec.Result = o.Result
		recs = append(recs, rec)
		if isKnown {
			continue
		}
		nObl++
		violations = append(violations, writeReplay(eng, replayDir, prop, o, ""))
	}
	if nObl == 0 && len(violations) == 0 {
		violations = append(violations, fmt.Sprintf("VIOLATION property=%s replay=%s no-failing-input-found", prop, writeNote(replayDir, "no-obligations.json", "the check generated no obligation: nothing was verified")))
	}
	// 5. output
	sort.Strings(knownHit)
	for _, k := range knownHit {
		fmt.Println(k)
	}
	for _, v := range violations {
		fmt.Println(v)
	}
	var as []string
	for a := range assum {
		as = append(as, a)
	}
	as = append(as, "go/types + go/ssa (x/tools v0.29.0) lower Go correctly; z3 / cvc5 are sound; the VC generator itself (guarded by selftest mutants and vacuity checks)",
		"composition by induction over the call history / decode loop: argued in DESIGN section 5.6, not machine-checked",
		"distinct pointer parameters of one function do not alias (checked syntactically at every call site inside the verified functions)",
		"slice lengths, capacities and offsets are below 2^47 (amd64 address space)")
	for _, s := range eng.cs.Scan {
		as = append(as, "contract scan: "+s)
	}
	var ae []string
	for k := range assumedElsewhere {
		ae = append(ae, k)
	}
	sort.Strings(ae)
	sort.Strings(as)
	wall := time.Since(start).Seconds() + eng.loadSecs
	if len(samples) == 0 {
		for _, o := range all {
			if o.ok() && len(samples) < 5 {
				samples = append(samples, map[string]string{"obligation": o.Name, "clause": o.Clause})
			}
		}
	}
	ev := map[string]interface{}{
		"property_id": prop,
		"tier":        tier,
		"seed":        seed,
		"level":       "proof",
		"wall_s":      round3(wall),
		"violations":  len(violations),
		"assumptions": as,
		"coverage": map[string]interface{}{
			"obligations":              nObl,
			"discharged":               nOK,
			"checker_cmd":              fmt.Sprintf("/verif/bin/govc check --tier %s %s  (VCs: /verif/out/smt/%s/*.smt2; solvers raced per obligation: z3-new 5.1.0, z3 4.8.12, cvc5 1.0.3; %ds limit)", tier, prop, timeout),
			"trusted_base":             trustedBase(as),
			"functions_under_contract": funcs,
			"callee_contracts_assumed": ae,
			"per_obligation":           recs,
			"vacuity_checks":           nVac,
			"reachability_covers":      nCover,
			"reachability_covers_infeasible_paths": nCoverUnsat,
			"vacuity_inconclusive":     nVacInc,
			"undecided":                info.Undecided,
			"bounded":                  info.Bounded,
			"depends_on":               info.DependsOn,
			"known_findings":           knownHit,
			"samples":                  samples,
			"solver_time_s":            round3(solverTime),
			"generation_time_s":        round3(genSecs),
			"load_time_s":              round3(eng.loadSecs),
			"explanation":              "every obligation is a verification condition generated from the go/ssa form of /repo's current working tree and the //@ contracts in <pkg>/zz_contracts_verif.go; 'discharged' counts obligations some solver answered unsat; undecided and bounded items are never counted",
		},
	}
	os.MkdirAll(filepath.Join(eng.outBase(), "evidence"), 0o755)
	data, _ := json.MarshalIndent(ev, "", " ")
	os.WriteFile(filepath.Join(eng.outBase(), "evidence", prop+".json"), data, 0o644)
	fmt.Printf("property %s tier=%s: %d obligations, %d discharged, %d violations, %d known findings, %d vacuity checks, %.1fs\n", prop, tier, nObl, nOK, len(violations), len(knownHit), nVac, wall)
	if len(violations) > 0 {
		return 1
	}
	return 0
}

func trustedBase(as []string) []string {
	out := []string{"govc VC generator (this task)", "go/ssa + go/types (x/tools v0.29.0)", "z3 4.8.12 / z3 5.1.0 / cvc5 1.0.3", "spec library /verif/spec (transcribed from spec/iconvg-spec-v0.md; checked against the document's worked examples)"}
	for _, a := range as {
		if strings.HasPrefix(a, "trusted") || strings.HasPrefix(a, "external") || strings.HasPrefix(a, "model of") || strings.HasPrefix(a, "interface contract") {
			out = append(out, a)
		}
	}
	return out
}

func round3(f float64) float64 { return float64(int(f*1000+0.5)) / 1000 }

func tailGoal(text string) string {
	i := strings.LastIndex(text, "; ---- goal")
	if i < 0 {
		return ""
	}
	t := text[i:]
	if len(t) > 1500 {
		t = t[:1500] + "..."
	}
	return t
}

func writeNote(dir, name, msg string) string {
	os.MkdirAll(dir, 0o755)
	p := filepath.Join(dir, name)
	data, _ := json.MarshalIndent(map[string]string{"note": msg}, "", " ")
	os.WriteFile(p, data, 0o644)
	return p
}

// writeReplay writes the replay file of a failed obligation and returns the VIOLATION line.
func writeReplay(eng *Engine, dir, prop string, o *Obl, note string) string {
	os.MkdirAll(dir, 0o755)
	path := filepath.Join(dir, sanitizeFile(o.Name)+".json")
	rep := map[string]interface{}{
		"property":      prop,
		"obligation":    o.Name,
		"kind":          o.Kind,
		"function":      o.Func,
		"clause":        o.Clause,
		"position":      o.Pos.String(),
		"solver_result": o.Result,
		"solver":        o.Solver,
		"solver_output": o.Output,
		"smt_file":      o.SMTFile,
		"note":          note,
	}
	if o.Failed != "" {
		rep["generation_failure"] = o.Failed
	}
	confirmed := false
	if o.Result == "sat" && o.Model != "" {
		rep["model_excerpt"] = firstLines(o.Model, 400)
		if r := eng.replay(o); r != nil {
			rep["replay"] = r
			if c, ok := r["confirmed"].(bool); ok && c {
				confirmed = true
			}
		}
	}
	data, _ := json.MarshalIndent(rep, "", " ")
	os.WriteFile(path, data, 0o644)
	fmt.Printf("failed obligation: %s (%s) %s\n", o.Name, o.Result, o.Clause)
	line := fmt.Sprintf("VIOLATION property=%s replay=%s", prop, path)
	if !confirmed {
		line += " no-failing-input-found"
	}
	return line
}
