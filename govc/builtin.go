package main

import (
	"fmt"
	"go/token"
	"go/types"
	"strings"

	"golang.org/x/tools/go/ssa"
)

func (f *Frame) builtin(x *ssa.Call, name string, args []SV, pc string, st *State) {
	vc := f.vc
	c := x.Common()
	switch name {
	case "len", "cap":
		a := args[0]
		switch u := c.Args[0].Type().Underlying().(type) {
		case *types.Slice:
			f.set(x, SV{T: fmt.Sprintf("(s.%s %s)", name, a.T)})
		case *types.Basic:
			f.set(x, SV{T: fmt.Sprintf("(gostr.len %s)", a.T)})
		case *types.Array:
			f.set(x, SV{T: vc.S.idxLit(u.Len())})
		case *types.Pointer:
			f.set(x, SV{T: vc.S.idxLit(u.Elem().Underlying().(*types.Array).Len())})
		default:
			vc.unsupported(x.Pos(), "%s of %s", name, c.Args[0].Type())
			f.set(x, SV{T: vc.decl("len", vc.S.idxSort())})
		}
	case "append":
		f.set(x, f.appendOp(x.Pos(), args[0], args[1], c.Args[0].Type(), c.Args[1].Type(), pc, st))
	case "print", "println":
	default:
		vc.unsupported(x.Pos(), "builtin %s", name)
		if x.Type() != nil {
			if _, ok := x.Type().(*types.Tuple); !ok {
				f.set(x, SV{T: vc.decl("builtin", vc.S.sortOf(x.Type()))})
			}
		}
	}
}

// appendOp models append(s, t...) exactly up to the contents of spare capacity after reallocation.
func (f *Frame) appendOp(pos token.Pos, s, t SV, st0, tt types.Type, pc string, st *State) SV {
	vc := f.vc
	sl := st0.Underlying().(*types.Slice)
	elem := sl.Elem()
	es := vc.S.sortOf(elem)
	mn := vc.memName(elem)
	m := vc.memTerm(st, elem)
	sT := vc.def("aps", "Slice", s.T)
	lenS := fmt.Sprintf("(s.len %s)", sT)
	offS := fmt.Sprintf("(s.off %s)", sT)
	// source accessors
	var klen string
	var srcAt func(j string) string
	static := -1
	if isString(tt) {
		klen = fmt.Sprintf("(gostr.len %s)", t.T)
		srcAt = func(j string) string { return fmt.Sprintf("(select (gostr.arr %s) %s)", t.T, j) }
		if id := strings.TrimPrefix(t.T, "str!"); id != t.T {
			for str, n := range vc.strIDs {
				if fmt.Sprintf("%d", n) == id {
					static = len(str)
				}
			}
		}
	} else {
		tT := vc.def("apt", "Slice", t.T)
		klen = fmt.Sprintf("(s.len %s)", tT)
		srcArr := vc.def("apsrc", fmt.Sprintf("(Array %s %s)", vc.S.idxSort(), es), fmt.Sprintf("(select %s (s.rgn %s))", m, tT))
		srcAt = func(j string) string { return fmt.Sprintf("(select %s %s)", srcArr, vc.idxAdd(fmt.Sprintf("(s.off %s)", tT), j)) }
		if t.SLen > 0 {
			static = t.SLen - 1
		}
	}
	newLen := vc.def("newlen", vc.S.idxSort(), vc.idxAdd(lenS, klen))
	if static >= 0 {
		newLen = vc.def("newlen", vc.S.idxSort(), vc.idxAdd(lenS, vc.S.idxLit(int64(static))))
	}
	inplace := vc.def("inplace", "Bool", vc.idxLe(newLen, fmt.Sprintf("(s.cap %s)", sT)))
	fr := vc.freshRegion(st)
	newCap := vc.decl("newcap", vc.S.idxSort())
	if vc.mode == Math {
		vc.assume(pc, fmt.Sprintf("(>= %s %s)", newCap, newLen))
	} else {
		vc.assume(pc, fmt.Sprintf("(and (bvuge %s %s) (bvult %s #x0000800000000000))", newCap, newLen, newCap))
	}
	base := vc.def("apbase", fmt.Sprintf("(Array %s %s)", vc.S.idxSort(), es), fmt.Sprintf("(select %s (s.rgn %s))", m, sT))
	start := vc.def("apstart", vc.S.idxSort(), vc.idxAdd(offS, lenS))
	contents := base
	switch {
	case static >= 0 && static <= 64:
		for j := 0; j < static; j++ {
			jl := vc.S.idxLit(int64(j))
			contents = fmt.Sprintf("(store %s %s %s)", contents, vc.idxAdd(start, jl), srcAt(jl))
		}
	case t.Lnk != nil && arrayLen(t.Lnk.typ) > 0 && arrayLen(t.Lnk.typ) <= 64:
		n := arrayLen(t.Lnk.typ)
		for j := int64(0); j < n; j++ {
			jl := vc.S.idxLit(j)
			var lt string
			if vc.mode == Math {
				lt = fmt.Sprintf("(< %s %s)", jl, klen)
			} else {
				lt = fmt.Sprintf("(bvult %s %s)", jl, klen)
			}
			contents = fmt.Sprintf("(ite %s (store %s %s %s) %s)", lt, contents, vc.idxAdd(start, jl), srcAt(jl), contents)
			contents = vc.def("apc", fmt.Sprintf("(Array %s %s)", vc.S.idxSort(), es), contents)
		}
	default:
		// unbounded source: array comprehension (z3 only)
		var rng string
		i := "i!ap"
		if vc.mode == Math {
			rng = fmt.Sprintf("(and (<= %s %s) (< %s %s))", start, i, i, vc.idxAdd(start, klen))
		} else {
			rng = fmt.Sprintf("(and (bvule %s %s) (bvult %s %s))", start, i, i, vc.idxAdd(start, klen))
		}
		contents = fmt.Sprintf("(lambda ((%s %s)) (ite %s %s (select %s %s)))", i, vc.S.idxSort(), rng, srcAt(vc.idxSub(i, start)), base, i)
		vc.uses["lambda"] = true
	}
	resRgn := ite(inplace, fmt.Sprintf("(s.rgn %s)", sT), fr)
	resCap := ite(inplace, fmt.Sprintf("(s.cap %s)", sT), newCap)
	res := vc.def("appended", "Slice", fmt.Sprintf("(mk-Slice %s %s %s %s)", resRgn, offS, newLen, resCap))
	st.mem[mn] = vc.def("mem", vc.S.memSort(es), fmt.Sprintf("(store %s (s.rgn %s) %s)", m, res, contents))
	vc.assum["append: after reallocation the spare capacity beyond len is not observed (modelled as a copy of the old backing array at the same offset)"] = true
	return SV{T: res, Lnk: s.Lnk}
}

func arrayLen(t types.Type) int64 {
	if a, ok := t.Underlying().(*types.Array); ok {
		return a.Len()
	}
	return -1
}

// stdModel gives built-in models of a few standard-library functions, written from their documentation.
func (vc *VC) stdModel(name string, args []SV, rt types.Type, pc string, st *State, pos token.Pos) (SV, bool) {
	res := SV{Typ: rt}
	switch name {
	case "bytes.HasPrefix":
		// reports whether s begins with prefix
		s, p := args[0].T, args[1].T
		vc.assum["model of bytes.HasPrefix from its documentation (prefix length <= 8 compared element-wise)"] = true
		m := vc.memTerm(st, types.Typ[types.Uint8])
		var parts []string
		parts = append(parts, vc.idxLe(fmt.Sprintf("(s.len %s)", p), fmt.Sprintf("(s.len %s)", s)))
		for j := int64(0); j < 8; j++ {
			jl := vc.S.idxLit(j)
			var lt string
			if vc.mode == Math {
				lt = fmt.Sprintf("(< %s (s.len %s))", jl, p)
			} else {
				lt = fmt.Sprintf("(bvult %s (s.len %s))", jl, p)
			}
			a := fmt.Sprintf("(select (select %s (s.rgn %s)) %s)", m, s, vc.idxAdd(fmt.Sprintf("(s.off %s)", s), jl))
			b := fmt.Sprintf("(select (select %s (s.rgn %s)) %s)", m, p, vc.idxAdd(fmt.Sprintf("(s.off %s)", p), jl))
			parts = append(parts, fmt.Sprintf("(=> %s (= %s %s))", lt, a, b))
		}
		// only valid for prefixes of at most 8 bytes
		vc.safety(pos, pc, "model", vc.idxLe(fmt.Sprintf("(s.len %s)", p), vc.S.idxLit(8)), "bytes.HasPrefix model: prefix length <= 8")
		res.T = and(parts...)
		return res, true
	case "(image.Rectangle).Dx":
		r := args[0].T
		res.T = vc.intSub(fmt.Sprintf("(image.Point.X (image.Rectangle.Max %s))", r), fmt.Sprintf("(image.Point.X (image.Rectangle.Min %s))", r))
		vc.assum["model of image.Rectangle.Dx/Dy/Empty and image.Pt from their documentation"] = true
		return res, true
	case "(image.Rectangle).Dy":
		r := args[0].T
		res.T = vc.intSub(fmt.Sprintf("(image.Point.Y (image.Rectangle.Max %s))", r), fmt.Sprintf("(image.Point.Y (image.Rectangle.Min %s))", r))
		vc.assum["model of image.Rectangle.Dx/Dy/Empty and image.Pt from their documentation"] = true
		return res, true
	case "(image.Rectangle).Empty":
		r := args[0].T
		ge := "bvsge"
		if vc.mode == Math {
			ge = ">="
		}
		res.T = fmt.Sprintf("(or (%s (image.Point.X (image.Rectangle.Min %s)) (image.Point.X (image.Rectangle.Max %s))) (%s (image.Point.Y (image.Rectangle.Min %s)) (image.Point.Y (image.Rectangle.Max %s))))", ge, r, r, ge, r, r)
		vc.assum["model of image.Rectangle.Dx/Dy/Empty and image.Pt from their documentation"] = true
		return res, true
	case "image.Pt":
		res.T = fmt.Sprintf("(mk-image.Point %s %s)", args[0].T, args[1].T)
		vc.S.sortOf(rt)
		return res, true
	}
	return res, false
}

func (vc *VC) intSub(a, b string) string {
	if vc.mode == Math {
		return vc.wrap(fmt.Sprintf("(- %s %s)", a, b), 64, true)
	}
	return fmt.Sprintf("(bvsub %s %s)", a, b)
}

// ---------- interface method calls

// ifaceShort returns the short name used for an interface type's event datatype.
func ifaceShort(t types.Type) string {
	if n, ok := t.(*types.Named); ok {
		return shortTypeName(n)
	}
	return sanitize(t.String())
}

func (vc *VC) ifaceTraceSort(short string) string {
	if vc.S.ifaceDecl[short] {
		return "Tr." + short
	}
	if t := vc.eng.ifaceByShort[short]; t != nil {
		vc.declareIface(t)
		return "Tr." + short
	}
	return ""
}

// declareIface declares the event and trace datatypes of an interface type.
func (vc *VC) declareIface(t types.Type) string {
	short := ifaceShort(t)
	if vc.S.ifaceDecl[short] {
		return short
	}
	vc.S.ifaceDecl[short] = true
	if sig, isFn := t.Underlying().(*types.Signature); isFn {
		// a named function type treated as a one-method interface: events are its calls
		fields := []string{}
		for j := 0; j < sig.Params().Len(); j++ {
			fields = append(fields, fmt.Sprintf("(%s.call.a%d %s)", short, j, vc.S.sortOf(sig.Params().At(j).Type())))
		}
		if len(fields) == 0 {
			fields = append(fields, fmt.Sprintf("(%s.call.unit Bool)", short))
		}
		vc.S.decls = append(vc.S.decls,
			fmt.Sprintf("(declare-datatypes ((Ev.%s 0)) (((%s.call %s))))", short, short, strings.Join(fields, " ")),
			fmt.Sprintf("(declare-datatypes ((Tr.%s 0)) (((nil.%s) (cons.%s (hd.%s Ev.%s) (tl.%s Tr.%s)))))", short, short, short, short, short, short, short))
		return short
	}
	it := t.Underlying().(*types.Interface)
	var ctors []string
	for i := 0; i < it.NumMethods(); i++ {
		m := it.Method(i)
		sig := m.Type().(*types.Signature)
		fields := []string{fmt.Sprintf("(%s.%s.recv Iface)", short, m.Name())}
		for j := 0; j < sig.Params().Len(); j++ {
			fields = append(fields, fmt.Sprintf("(%s.%s.a%d %s)", short, m.Name(), j, vc.S.sortOf(sig.Params().At(j).Type())))
		}
		ctors = append(ctors, fmt.Sprintf("(%s.%s %s)", short, m.Name(), strings.Join(fields, " ")))
	}
	vc.S.decls = append(vc.S.decls,
		fmt.Sprintf("(declare-datatypes ((Ev.%s 0)) ((%s)))", short, strings.Join(ctors, " ")),
		fmt.Sprintf("(declare-datatypes ((Tr.%s 0)) (((nil.%s) (cons.%s (hd.%s Ev.%s) (tl.%s Tr.%s)))))", short, short, short, short, short, short, short))
	return short
}

func (f *Frame) invoke(x *ssa.Call, pc string, st *State) {
	vc := f.vc
	c := x.Common()
	recv := f.val(c.Value)
	var args []SV
	for _, a := range c.Args {
		args = append(args, f.val(a))
	}
	it := c.Value.Type()
	short := vc.declareIface(it)
	mname := c.Method.Name()
	vc.safety(x.Pos(), pc, "nilinvoke", not(fmt.Sprintf("(= %s nil.Iface)", recv.T)), "method call on nil interface value")
	vc.atCall(f, short+"."+mname, args, pc, st, x.Pos())
	con := vc.eng.ifaceContract(it, mname, vc.mode)
	pure := con != nil && con.Pure
	sig := c.Method.Type().(*types.Signature)
	res := f.freshResults(sig.Results(), pc, st, "ret_"+mname)
	if !pure {
		parts := []string{recv.T}
		for _, a := range args {
			t := a.T
			if t == "" {
				t = vc.ptrTerm(a)
			}
			parts = append(parts, t)
		}
		ev := fmt.Sprintf("(%s.%s %s)", short, mname, strings.Join(parts, " "))
		trn := "tr." + short
		cur := vc.ghostTerm(st, trn, "Tr."+short, "")
		st.ghost[trn] = vc.def(sanitize(trn), "Tr."+short, fmt.Sprintf("(cons.%s %s %s)", short, ev, cur))
		for name, srt := range vc.eng.monSorts {
			if vc.eng.monIface[name] == short && vc.monActive(name) {
				mc := vc.ghostTerm(st, name, srt, "")
				st.ghost[name] = vc.def(sanitize(name), srt, fmt.Sprintf("(%s.step %s %s)", name, mc, ev))
			}
		}
	}
	if con != nil {
		newUse := false
		for _, u := range con.Uses {
			if !vc.uses[u] {
				vc.uses[u] = true
				newUse = true
			}
		}
		if newUse {
			vc.forceSpecTypes()
		}
		roots := map[string]SV{"recv": recv}
		for j := 0; j < sig.Params().Len() && j < len(args); j++ {
			roots[fmt.Sprintf("arg%d", j)] = args[j]
			if n := sig.Params().At(j).Name(); n != "" {
				roots[n] = args[j]
			}
		}
		if sig.Results().Len() == 1 {
			roots["result"] = res
			roots["result.0"] = res
		} else {
			for i := range res.Tup {
				roots[fmt.Sprintf("result.%d", i)] = res.Tup[i]
			}
		}
		env := &Env{vc: vc, roots: roots, cur: st, old: st, con: con}
		for _, e := range con.Ensures {
			t, err := env.eval(e.Expr)
			if err != nil {
				vc.unsupported(x.Pos(), "interface contract %s.%s: %v", short, mname, err)
				continue
			}
			vc.assume(pc, t)
		}
		vc.assum[fmt.Sprintf("interface contract of %s.%s (assumed of every implementation)", short, mname)] = true
	}
	f.setCall(x, res)
}
