package main

import (
	"flag"
	"fmt"
	"golang.org/x/tools/go/ssa"
	"os"
	"path/filepath"
	"runtime"
	"sort"
	"strings"
	"time"
)

func main() {
	if len(os.Args) < 2 {
		fmt.Fprintln(os.Stderr, "usage: govc <check|func|list> ...")
		os.Exit(2)
	}
	cmd := os.Args[1]
	fs := flag.NewFlagSet(cmd, flag.ExitOnError)
	repo := fs.String("repo", envOr("VERIF_REPO", "/repo"), "repository root")
	verif := fs.String("verif", envOr("VERIF_DIR", "/verif"), "verification directory")
	tier := fs.String("tier", envOr("VERIF_TIER", "quick"), "quick|thorough")
	timeout := fs.Int("timeout", 0, "per-obligation solver timeout in seconds (default by tier)")
	dump := fs.Bool("dump", false, "print generated obligations")
	par := fs.Int("par", (runtime.NumCPU()*3)/8, "parallel obligations")
	only := fs.String("only", "", "only obligations whose name contains this")
	fs.Parse(os.Args[2:])
	if *timeout == 0 {
		*timeout = 180
		if *tier == "thorough" {
			*timeout = 900
		}
	}
	currentTier = *tier
	start := time.Now()
	eng, err := loadEngine(*repo, *verif)
	if err != nil {
		fmt.Fprintln(os.Stderr, "load:", err)
		os.Exit(3)
	}
	eng.loadSecs = time.Since(start).Seconds()
	eng.tier = *tier
	switch cmd {
	case "list":
		var keys []string
		for k := range eng.cs.ByFunc {
			keys = append(keys, k)
		}
		sort.Strings(keys)
		for _, k := range keys {
			fmt.Println(k)
		}
	case "func":
		outDir := filepath.Join(*verif, "out", "smt", "dev")
		bad := 0
		for _, name := range fs.Args() {
			fn := eng.findFunc("", name)
			if fn == nil {
				for _, f := range eng.allFuncs {
					if strings.HasSuffix(f.String(), name) && f.Pkg != nil && strings.HasPrefix(f.Pkg.Pkg.Path(), eng.modPath) {
						fn = f
					}
				}
			}
			if fn == nil {
				fmt.Println("no such function:", name)
				continue
			}
			cons := eng.contractsOf(fn)
			if len(cons) == 0 {
				cons = []*Contract{nil}
			}
			var expanded []*Contract
			for _, con := range cons {
				if con == nil {
					expanded = append(expanded, nil)
				} else {
					expanded = append(expanded, con.cases()...)
				}
			}
			for _, con := range expanded {
				if con != nil && con.Inline {
					continue
				}
				vc := eng.verifyFunc(fn, con)
				var obls []*Obl
				for _, o := range vc.obls {
					if *only == "" || strings.Contains(o.Name, *only) {
						obls = append(obls, o)
					}
				}
				dischargeAll(obls, outDir, *timeout, *par)
				for _, o := range obls {
					mark := "ok  "
					if !o.ok() {
						mark = "FAIL"
						bad++
					}
					fmt.Printf("%s %-8s %6.2fs %-10s %s\n", mark, o.Result, o.Seconds, o.Solver, o.Name)
					if !o.ok() || *dump {
						fmt.Printf("       clause: %s\n       output: %s\n       file: %s\n", o.Clause, strings.ReplaceAll(o.Output, "\n", "\n               "), o.SMTFile)
					}
				}
				var as []string
				for a := range vc.assum {
					as = append(as, a)
				}
				sort.Strings(as)
				for _, a := range as {
					fmt.Println("  assumes:", a)
				}
			}
		}
		if bad > 0 {
			os.Exit(1)
		}
	case "cands":
		for _, f := range eng.addrTaken {
			fmt.Println(f.String(), "|", f.Signature.String(), "| synthetic:", f.Synthetic)
		}
	case "loops":
		for _, name := range fs.Args() {
			for _, f := range eng.allFuncs {
				if strings.HasSuffix(f.String(), name) && f.Pkg != nil && strings.HasPrefix(f.Pkg.Pkg.Path(), eng.modPath) {
					vc := eng.newVC(f, nil)
					fr := vc.newFrame(f, nil)
					fmt.Println(f.String())
					for h, li := range fr.loops {
						var phis []string
						for _, ins := range h.Instrs {
							if p, ok := ins.(*ssa.Phi); ok {
								phis = append(phis, p.Comment)
							}
						}
						line := 0
						for _, ins := range h.Instrs {
							if ins.Pos() != 0 {
								line = eng.fset.Position(ins.Pos()).Line
								break
							}
						}
						fmt.Printf("  loop %d: head block %d (%s) line %d phis %v blocks %d\n", li.ordinal, h.Index, h.Comment, line, phis, len(li.blocks))
					}
				}
			}
		}
	case "check":
		os.Exit(runCheck(eng, fs.Args(), *tier, *timeout, *par))
	default:
		fmt.Fprintln(os.Stderr, "unknown command", cmd)
		os.Exit(2)
	}
}

func envOr(k, d string) string {
	if v := os.Getenv(k); v != "" {
		return v
	}
	return d
}
