package main

// runSweeps runs the structural (non-solver) obligations registered for a property.
func (eng *Engine) runSweeps(prop string, info PropInfo) ([]*Obl, []string) {
	return nil, nil
}
