package main

import (
	"fmt"
	"go/types"
	"sort"
	"strings"

	"golang.org/x/tools/go/ssa"
)

// sweepPkgs are the library packages whose every function is swept (commands and tests are not).
var sweepPkgs = []string{"", "/decode", "/encode", "/render", "/generate", "/raster", "/raster/vec", "/mdicons"}

func (eng *Engine) sweepFuncs() []*ssa.Function {
	var out []*ssa.Function
	for _, f := range eng.allFuncs {
		if f.Pkg == nil && f.Parent() == nil {
			continue
		}
		pkg := f.Pkg
		if pkg == nil && f.Parent() != nil {
			pkg = f.Parent().Pkg
		}
		if pkg == nil || len(f.Blocks) == 0 {
			continue
		}
		rel := strings.TrimPrefix(pkg.Pkg.Path(), eng.modPath)
		ok := false
		for _, p := range sweepPkgs {
			if rel == p {
				ok = true
			}
		}
		if !ok || f.Synthetic != "" && !strings.Contains(f.Synthetic, "package initializer") {
			continue
		}
		out = append(out, f)
	}
	sort.Slice(out, func(i, j int) bool { return out[i].String() < out[j].String() })
	return out
}

func structural(name, kind, fn, clause string, holds bool, why string, labels ...string) *Obl {
	o := &Obl{Name: name, Kind: kind, Func: fn, Clause: clause, Labels: labels, Solver: "structural (go/ssa scan)"}
	if holds {
		o.Result = "unsat"
	} else {
		o.Result = "sat"
		o.Output = why
	}
	return o
}

// runSweeps runs the structural (non-solver) obligations registered for a property.
func (eng *Engine) runSweeps(prop string, info PropInfo) ([]*Obl, []string) {
	var out []*Obl
	var assum []string
	for _, sw := range info.Sweeps {
		switch sw {
		case "frames":
			out = append(out, eng.sweepFrames(prop)...)
			assum = append(assum, "C18: two operations whose write frames are disjoint and whose shared data is only read have no data race in any schedule (Go memory model, DRF): stated, not machine-checked",
				"C18: fmt, bytes, math, image, image/color and golang.org/x/image/vector keep no shared mutable state")
		case "determinism":
			out = append(out, eng.sweepDeterminism(prop)...)
		case "readframe":
			out = append(out, eng.sweepReadFrame(prop)...)
		case "drawop":
			out = append(out, eng.sweepDrawOp(prop)...)
		}
	}
	return out, assum
}

func short(f *ssa.Function) string {
	s := f.String()
	return strings.ReplaceAll(s, "github.com/reactivego/", "")
}

// sweepFrames: no store to package-level variables outside initialisers, no write through the decode API's
// byte slices or caller palettes, no package-level storage leaking into objects or results.
func (eng *Engine) sweepFrames(prop string) []*Obl {
	var out []*Obl
	for _, f := range eng.sweepFuncs() {
		isInit := f.Name() == "init" && f.Synthetic != ""
		// (a) direct stores to globals in this function body
		var bad []string
		for _, b := range f.Blocks {
			for _, ins := range b.Instrs {
				switch x := ins.(type) {
				case *ssa.Store:
					if r := rootOf(x.Addr); r.kind == "global" && !isInit {
						bad = append(bad, fmt.Sprintf("%s: store to package-level variable %s", eng.fset.Position(x.Pos()), r.glob.Name()))
					}
				case *ssa.MapUpdate:
					if r := rootOf(x.Map); r.kind == "global" && !isInit {
						bad = append(bad, fmt.Sprintf("%s: update of package-level map", eng.fset.Position(x.Pos())))
					}
				case ssa.CallInstruction:
					c := x.Common()
					if bi, ok := c.Value.(*ssa.Builtin); ok && (bi.Name() == "append" || bi.Name() == "copy") && !isInit {
						if src := globalSliceSource(c.Args[0]); src != nil {
							bad = append(bad, fmt.Sprintf("%s: %s into storage of package-level variable %s", eng.fset.Position(x.Pos()), bi.Name(), src.Name()))
						}
					}
				}
			}
		}
		out = append(out, structural(fmt.Sprintf("sweep/%s/no-global-store", short(f)), "sweep", f.String(),
			"no store to a package-level variable outside package initialisation", len(bad) == 0, strings.Join(bad, "; "), prop+".no-global-store"))
		// (b) package-level storage does not leak: a pointer/slice into a global may only be read
		bad = nil
		if !isInit {
			for _, b := range f.Blocks {
				for _, ins := range b.Instrs {
					v, ok := ins.(ssa.Value)
					if !ok {
						continue
					}
					g := globalSliceSource(v)
					if g == nil {
						continue
					}
					if _, isSlice := v.Type().Underlying().(*types.Slice); !isSlice {
						if _, isPtr := v.Type().Underlying().(*types.Pointer); !isPtr {
							continue
						}
					}
					for _, r := range *v.Referrers() {
						switch u := r.(type) {
						case *ssa.Store:
							if u.Val == v {
								bad = append(bad, fmt.Sprintf("%s: storage of package-level variable %s stored into an object", eng.fset.Position(u.Pos()), g.Name()))
							}
						case *ssa.Return:
							bad = append(bad, fmt.Sprintf("%s: storage of package-level variable %s returned", eng.fset.Position(u.Pos()), g.Name()))
						case *ssa.MakeInterface, *ssa.MakeClosure:
							bad = append(bad, fmt.Sprintf("%s: storage of package-level variable %s escapes", eng.fset.Position(r.Pos()), g.Name()))
						case ssa.CallInstruction:
							callee := u.Common().StaticCallee()
							if bi, ok := u.Common().Value.(*ssa.Builtin); ok && (bi.Name() == "len" || bi.Name() == "cap") {
								continue
							}
							if bi, ok := u.Common().Value.(*ssa.Builtin); ok && bi.Name() == "append" && len(u.Common().Args) > 1 && u.Common().Args[1] == v && u.Common().Args[0] != v {
								continue // appended FROM the global: read only
							}
							if callee != nil && readOnlyExternal[callee.String()] {
								continue
							}
							if callee != nil && eng.inModule(callee) {
								// passed to a module function: it must not write through that parameter
								ce := eng.effectsOf(callee)
								wrote := false
								for i, a := range u.Common().Args {
									if a != v {
										continue
									}
									for _, cr := range ce.Roots {
										if cr.kind == "param" && cr.index == i {
											wrote = true
										}
									}
								}
								if !wrote {
									continue
								}
							}
							bad = append(bad, fmt.Sprintf("%s: storage of package-level variable %s passed to %v", eng.fset.Position(u.Pos()), g.Name(), u.Common().Value))
						}
					}
				}
			}
		}
		out = append(out, structural(fmt.Sprintf("sweep/%s/no-global-alias", short(f)), "sweep", f.String(),
			"storage of package-level variables is only read: no pointer or slice into it is stored, returned, or handed to code that may write it", len(bad) == 0, strings.Join(bad, "; "), prop+".no-global-alias"))
		// (c) input frames: functions of ivg and decode never write byte memory; nothing writes through a []byte / palette parameter
		bad = nil
		rel := ""
		if f.Pkg != nil {
			rel = strings.TrimPrefix(f.Pkg.Pkg.Path(), eng.modPath)
		} else if f.Parent() != nil && f.Parent().Pkg != nil {
			rel = strings.TrimPrefix(f.Parent().Pkg.Pkg.Path(), eng.modPath)
		}
		e := eng.effectsOf(f)
		if rel == "" || rel == "/decode" {
			for k, t := range e.Mems {
				if b, ok := t.Underlying().(*types.Basic); ok && b.Kind() == types.Uint8 {
					bad = append(bad, "writes []byte memory ("+k+")")
				}
			}
		}
		for _, r := range e.Roots {
			if r.kind == "param" && len(r.path) > 0 && r.path[0] == -3 && r.elem != nil {
				if b, ok := r.elem.Underlying().(*types.Basic); ok && b.Kind() == types.Uint8 {
					bad = append(bad, fmt.Sprintf("writes elements of its []byte parameter #%d", r.index))
				}
			}
			if r.kind == "param" && r.index < len(f.Params) {
				// pointer-to-palette parameters ([64]color.RGBA) must not be written (Color.Resolve)
				if pt, ok := f.Params[r.index].Type().Underlying().(*types.Pointer); ok {
					if arr, ok := pt.Elem().Underlying().(*types.Array); ok && arr.Len() == 64 && strings.HasSuffix(arr.Elem().String(), "color.RGBA") {
						bad = append(bad, fmt.Sprintf("writes through its palette/register pointer parameter %s", f.Params[r.index].Name()))
					}
				}
			}
		}
		if len(e.Unknown) > 0 && (rel == "" || rel == "/decode") {
			bad = append(bad, "write effects not fully resolved: "+strings.Join(uniq(e.Unknown), ", "))
		}
		out = append(out, structural(fmt.Sprintf("sweep/%s/input-frame", short(f)), "sweep", f.String(),
			"no write into a []byte parameter, into the decoder's input memory or through a palette pointer", len(bad) == 0, strings.Join(bad, "; "), prop+".input-frame"))
	}
	return out
}

var readOnlyExternal = map[string]bool{"bytes.HasPrefix": true, "bytes.Equal": true, "bytes.Compare": true}

func uniq(xs []string) []string {
	seen := map[string]bool{}
	var out []string
	for _, x := range xs {
		if !seen[x] {
			seen[x] = true
			out = append(out, x)
		}
	}
	return out
}

// globalSliceSource: v is (derived by slicing / conversion from) the value or address of a package-level variable
// that has storage worth protecting (slice, array, pointer); returns that variable.
func globalSliceSource(v ssa.Value) *ssa.Global {
	switch x := v.(type) {
	case *ssa.Global:
		return x
	case *ssa.UnOp:
		if x.Op.String() == "*" {
			if g, ok := x.X.(*ssa.Global); ok {
				switch g.Type().(*types.Pointer).Elem().Underlying().(type) {
				case *types.Slice, *types.Pointer, *types.Map:
					return g
				}
			}
		}
	case *ssa.Slice:
		return globalSliceSource(x.X)
	case *ssa.ChangeType:
		return globalSliceSource(x.X)
	case *ssa.FieldAddr:
		return globalSliceSource(x.X)
	case *ssa.IndexAddr:
		return globalSliceSource(x.X)
	}
	return nil
}

// sweepDeterminism: no map iteration, select, goroutine, or call into time / math/rand / os / runtime.
func (eng *Engine) sweepDeterminism(prop string) []*Obl {
	var out []*Obl
	banned := []string{"time.", "math/rand.", "os.", "runtime.", "crypto/rand.", "sync."}
	for _, f := range eng.sweepFuncs() {
		rel := ""
		if f.Pkg != nil {
			rel = strings.TrimPrefix(f.Pkg.Pkg.Path(), eng.modPath)
		} else if f.Parent() != nil && f.Parent().Pkg != nil {
			rel = strings.TrimPrefix(f.Parent().Pkg.Pkg.Path(), eng.modPath)
		}
		if rel == "/mdicons" {
			continue // the converter front end reads files and directories by design; C17 is about Encoder and Renderer
		}
		var bad []string
		for _, b := range f.Blocks {
			for _, ins := range b.Instrs {
				switch x := ins.(type) {
				case *ssa.Range:
					if _, ok := x.X.Type().Underlying().(*types.Map); ok {
						bad = append(bad, fmt.Sprintf("%s: iteration over a map", eng.fset.Position(x.Pos())))
					}
				case *ssa.Select, *ssa.Go:
					bad = append(bad, fmt.Sprintf("%s: %T", eng.fset.Position(ins.Pos()), ins))
				case *ssa.Convert:
					if _, ok := x.X.Type().Underlying().(*types.Pointer); ok {
						bad = append(bad, fmt.Sprintf("%s: pointer converted to an integer", eng.fset.Position(x.Pos())))
					}
				case ssa.CallInstruction:
					if callee := x.Common().StaticCallee(); callee != nil && !eng.inModule(callee) {
						for _, bn := range banned {
							if strings.HasPrefix(callee.String(), bn) || strings.HasPrefix(callee.String(), "("+bn) || strings.HasPrefix(callee.String(), "(*"+bn) {
								bad = append(bad, fmt.Sprintf("%s: call of %s", eng.fset.Position(x.Pos()), callee))
							}
						}
					}
				}
			}
		}
		out = append(out, structural(fmt.Sprintf("sweep/%s/deterministic", short(f)), "sweep", f.String(),
			"no map iteration, select, goroutine, pointer-to-integer conversion or call into time / rand / os / runtime / sync", len(bad) == 0, strings.Join(bad, "; "), prop+".det"))
	}
	return out
}

// sweepReadFrame (C16): the Renderer looks at its target rectangle only through Dx, Dy and Empty, except for handing it to Draw.
func (eng *Engine) sweepReadFrame(prop string) []*Obl {
	var out []*Obl
	for _, f := range eng.sweepFuncs() {
		if f.Signature.Recv() == nil || !strings.HasSuffix(f.Signature.Recv().Type().String(), "render.Renderer") {
			if f.Parent() == nil || f.Parent().Signature.Recv() == nil || !strings.HasSuffix(f.Parent().Signature.Recv().Type().String(), "render.Renderer") {
				continue
			}
		}
		var bad []string
		for _, b := range f.Blocks {
			for _, ins := range b.Instrs {
				fa, ok := ins.(*ssa.FieldAddr)
				if !ok {
					continue
				}
				st, ok := fa.X.Type().Underlying().(*types.Pointer).Elem().Underlying().(*types.Struct)
				if !ok || st.Field(fa.Field).Name() != "r" || !strings.HasSuffix(st.Field(fa.Field).Type().String(), "image.Rectangle") {
					continue
				}
				for _, r := range *fa.Referrers() {
					switch u := r.(type) {
					case *ssa.Store:
						if u.Addr == fa && f.Name() == "SetRasterizer" {
							continue
						}
						bad = append(bad, fmt.Sprintf("%s: z.r written outside SetRasterizer", eng.fset.Position(u.Pos())))
					case *ssa.UnOp:
						for _, rr := range *u.Referrers() {
							ci, isCall := rr.(ssa.CallInstruction)
							if !isCall {
								if _, isDbg := rr.(*ssa.DebugRef); isDbg {
									continue
								}
								bad = append(bad, fmt.Sprintf("%s: z.r used by %T", eng.fset.Position(rr.Pos()), rr))
								continue
							}
							c := ci.Common()
							name := ""
							if c.IsInvoke() {
								name = c.Method.Name()
							} else if sc := c.StaticCallee(); sc != nil {
								name = sc.String()
							}
							switch name {
							case "(image.Rectangle).Dx", "(image.Rectangle).Dy", "(image.Rectangle).Empty", "Draw":
							default:
								bad = append(bad, fmt.Sprintf("%s: z.r passed to %s", eng.fset.Position(rr.Pos()), name))
							}
						}
					case *ssa.FieldAddr:
						bad = append(bad, fmt.Sprintf("%s: a corner of z.r is read directly", eng.fset.Position(u.Pos())))
					case *ssa.DebugRef:
					default:
						bad = append(bad, fmt.Sprintf("%s: z.r used by %T", eng.fset.Position(r.Pos()), r))
					}
				}
			}
		}
		out = append(out, structural(fmt.Sprintf("sweep/%s/rect-size-only", short(f)), "sweep", f.String(),
			"the target rectangle is read only through Dx, Dy, Empty, or handed to Draw", len(bad) == 0, strings.Join(bad, "; "), prop+".reads"))
	}
	return out
}


// sweepDrawOp (C16): the compositing operator of a vec.Rasterizer is stored to by its Draw method only (there: copied
// into the inner rasteriser, then reverted to draw.Over), so "the configured operator applies to the first drawn path"
// cannot be undone by any other method (Reset, the path verbs) of the library.
func (eng *Engine) sweepDrawOp(prop string) []*Obl {
	var out []*Obl
	for _, f := range eng.sweepFuncs() {
		var bad []string
		for _, b := range f.Blocks {
			for _, ins := range b.Instrs {
				fa, ok := ins.(*ssa.FieldAddr)
				if !ok {
					continue
				}
				pt, ok := fa.X.Type().Underlying().(*types.Pointer)
				if !ok {
					continue
				}
				st, ok := pt.Elem().Underlying().(*types.Struct)
				if !ok || st.Field(fa.Field).Name() != "DrawOp" || !strings.HasSuffix(pt.Elem().String(), "raster/vec.Rasterizer") {
					continue
				}
				if fa.Referrers() == nil {
					continue
				}
				for _, r := range *fa.Referrers() {
					if u, isStore := r.(*ssa.Store); isStore && u.Addr == fa {
						if !strings.HasSuffix(f.String(), "raster/vec.Rasterizer).Draw") {
							bad = append(bad, fmt.Sprintf("%s: vec.Rasterizer.DrawOp written in %s", eng.fset.Position(u.Pos()), short(f)))
						}
					}
				}
			}
		}
		rel := ""
		if f.Pkg != nil {
			rel = strings.TrimPrefix(f.Pkg.Pkg.Path(), eng.modPath)
		}
		if rel != "/raster/vec" && rel != "/render" && len(bad) == 0 {
			continue // one obligation per function of the two packages that hold a vec.Rasterizer, and per offender elsewhere
		}
		out = append(out, structural(fmt.Sprintf("sweep/%s/drawop-only-in-draw", short(f)), "sweep", f.String(),
			"vec.Rasterizer.DrawOp is stored to by (*vec.Rasterizer).Draw only", len(bad) == 0, strings.Join(bad, "; "), prop+".drawop"))
	}
	return out
}
