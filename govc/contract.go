package main

import (
	"bufio"
	"fmt"
	"os"
	"path/filepath"
	"regexp"
	"sort"
	"strconv"
	"strings"
)

// Clause is one labelled formula of a contract.
type Clause struct {
	Labels []string
	Expr   *Sexp
	Text   string
	File   string
	Line   int
	Tier   string // "" = always, "thorough" = only in thorough tier
	Internal bool // mentions locals of the function: proved, but not exported to callers
	Cumulative bool // the proof of this clause may use the earlier ensures clauses of the same contract
	CheckOnly bool // at-call assertion that is checked but not added to what is known afterwards (quantified clauses that would burden every later query)
}

type LetDef struct {
	Name string
	Expr *Sexp
}

type LoopSpec struct {
	Steps      []Clause // checked at every back edge; may use (head X) for values at the start of the iteration
	Invariants []Clause
	Decreases  *Clause
}

// AtCall is an assertion on the n-th (0-based) call to Callee inside the function.
type AtCall struct {
	Callee string
	N      int // -1 = every call
	Clause Clause
}

// Contract is the contract of one function under one arithmetic reading.
type Contract struct {
	Pkg      string // import path
	Func     string // name relative to package, e.g. (*buffer).encodeReal
	Mode     string // "bits" or "math"
	NoSafety string // non-empty: no safety obligations are generated for this function; the text says why
	Inline   bool
	Trusted  bool
	Requires []Clause
	Ensures  []Clause
	Modifies []string
	HasMod   bool
	Loops    map[int]*LoopSpec
	Lets     []LetDef
	AtCalls  []AtCall
	Uses     []string
	Ignores  []string
	Arch     string
	File     string
	Line     int
	PerReturn bool // check the postconditions at every return point separately
	Pure     bool // interface method: observer, appends no event
	Timeout  int  // per-obligation timeout override (seconds)
	Unroll   map[int]int // loop ordinal -> unrolling bound (complete: an unwinding obligation closes it)
	SplitExpr *Sexp   // case split: one VC per listed value of this expression, plus the residual case
	SplitVals []*Sexp
	MoreSplits []splitSpec // further splits (cartesian product)
	CaseTag  string // set on the per-case copies
	BindName string // per-case copy of a split on a plain parameter: the parameter is replaced by the value
	BindVal  *Sexp
	Notes    []string
}

func (c *Contract) Key() string { return c.Pkg + "::" + c.Func }

// ContractSet holds every contract, by function key; a function may have several (one per mode).
type ContractSet struct {
	ByFunc map[string][]*Contract
	Files  []string
	// assumption scan
	Scan []string
}

// currentTier is set before the contracts are loaded (tier-dependent case splits).
var currentTier = "quick"

var labelRe = regexp.MustCompile(`^\[([^\]]*)\]\s*`)

func loadContracts(repo string, extra []string) (*ContractSet, error) {
	cs := &ContractSet{ByFunc: map[string][]*Contract{}}
	var files []string
	filepath.Walk(repo, func(path string, info os.FileInfo, err error) error {
		if err != nil {
			return nil
		}
		if info.IsDir() && (info.Name() == ".git" || info.Name() == "testdata") {
			return filepath.SkipDir
		}
		if !info.IsDir() && info.Name() == "zz_contracts_verif.go" {
			files = append(files, path)
		}
		return nil
	})
	sort.Strings(files)
	files = append(files, extra...)
	for _, f := range files {
		if err := cs.loadFile(f, repo); err != nil {
			return nil, err
		}
	}
	cs.Files = files
	return cs, nil
}

func (cs *ContractSet) loadFile(path, repo string) error {
	fh, err := os.Open(path)
	if err != nil {
		return err
	}
	defer fh.Close()
	// Collect logical //@ lines (with continuation by paren balance).
	type lline struct {
		text string
		line int
	}
	var lines []lline
	sc := bufio.NewScanner(fh)
	sc.Buffer(make([]byte, 1<<20), 1<<20)
	ln := 0
	pkgName := ""
	var cur *lline
	for sc.Scan() {
		ln++
		raw := strings.TrimSpace(sc.Text())
		if strings.HasPrefix(raw, "package ") && pkgName == "" {
			pkgName = strings.TrimSpace(strings.TrimPrefix(raw, "package "))
		}
		if !strings.HasPrefix(raw, "//@") {
			continue
		}
		body := strings.TrimPrefix(raw, "//@")
		// strip trailing comment introduced by " //" is not supported; use ; inside sexps
		if cur != nil && parenBalance(cur.text) > 0 {
			cur.text += "\n" + body
			continue
		}
		if strings.TrimSpace(body) == "" {
			continue
		}
		lines = append(lines, lline{text: body, line: ln})
		cur = &lines[len(lines)-1]
	}
	if err := sc.Err(); err != nil {
		return err
	}
	// Determine import path of the package.
	pkgPath := ""
	if strings.HasPrefix(path, repo+"/") || filepath.Dir(path) == repo {
		rel, _ := filepath.Rel(repo, filepath.Dir(path))
		pkgPath = modulePath(repo)
		if rel != "." {
			pkgPath += "/" + filepath.ToSlash(rel)
		}
	}
	var c *Contract
	var fileUses []string
	var fileContracts []*Contract
	var fileLets []LetDef
	defer func() {
		for _, fc := range fileContracts {
			if fc != nil {
				fc.Uses = append(fc.Uses, fileUses...)
				fc.Lets = append(fc.Lets, fileLets...)
			}
		}
	}()
	for _, l := range lines {
		text := strings.TrimSpace(l.text)
		kw, rest := splitWord(text)
		fail := func(format string, a ...interface{}) error {
			return fmt.Errorf("%s:%d: %s", path, l.line, fmt.Sprintf(format, a...))
		}
		switch kw {
		case "package":
			pkgPath = strings.TrimSpace(rest)
			continue
		case "uses":
			fileUses = append(fileUses, strings.Fields(rest)...)
			fileContracts = append(fileContracts, nil)
			continue
		case "contract", "iface", "functype":
			name := strings.TrimSpace(rest)
			if kw == "functype" {
				name = "functype:" + name
			}
			c = &Contract{Pkg: pkgPath, Func: name, Mode: "bits", Loops: map[int]*LoopSpec{}, File: path, Line: l.line}
			fileContracts = append(fileContracts, c)
			cs.ByFunc[c.Key()] = append(cs.ByFunc[c.Key()], c)
			continue
		}
		if kw == "filelet" || c == nil && kw == "let" {
			name, body := splitWord(strings.TrimSpace(rest))
			e, err := parseSexp(body)
			if err != nil {
				return fail("%v", err)
			}
			fileLets = append(fileLets, LetDef{Name: name, Expr: e})
			continue
		}
		if c == nil {
			return fail("clause %q outside a contract block", kw)
		}
		parseClause := func(s string) (Clause, error) {
			cl := Clause{File: path, Line: l.line}
			s = strings.TrimSpace(s)
			if m := labelRe.FindStringSubmatch(s); m != nil {
				cl.Labels = strings.Fields(m[1])
				s = s[len(m[0]):]
			}
			if strings.HasPrefix(s, "internal ") {
				cl.Internal = true
				s = strings.TrimSpace(strings.TrimPrefix(s, "internal "))
			}
			if strings.HasPrefix(s, "cumulative ") {
				cl.Cumulative = true
				s = strings.TrimSpace(strings.TrimPrefix(s, "cumulative "))
			}
			if strings.HasPrefix(s, "checkonly ") {
				cl.CheckOnly = true
				s = strings.TrimSpace(strings.TrimPrefix(s, "checkonly "))
			}
			if strings.HasPrefix(s, "thorough ") {
				cl.Tier = "thorough"
				s = strings.TrimSpace(strings.TrimPrefix(s, "thorough "))
			}
			e, err := parseSexp(s)
			if err != nil {
				return cl, fail("%v", err)
			}
			cl.Expr = e
			cl.Text = strings.Join(strings.Fields(s), " ")
			return cl, nil
		}
		switch kw {
		case "unroll":
			var k, u int
			if n, _ := fmt.Sscanf(rest, "%d %d", &k, &u); n != 2 {
				return fail("expected: unroll <loop ordinal> <bound>")
			}
			if c.Unroll == nil {
				c.Unroll = map[int]int{}
			}
			c.Unroll[k] = u
		case "split":
			// split [thorough] <expr> in <v1> <v2> ...
			if strings.HasPrefix(rest, "thorough ") {
				rest = strings.TrimSpace(strings.TrimPrefix(rest, "thorough "))
				if currentTier != "thorough" {
					continue
				}
			}
			idx := strings.Index(rest, " in ")
			if idx < 0 {
				return fail("expected: split <expr> in <v1> <v2> ...")
			}
			e, err := parseSexp(strings.TrimSpace(rest[:idx]))
			if err != nil {
				return fail("%v", err)
			}
			vals, err := parseSexps(rest[idx+4:])
			if err != nil {
				return fail("%v", err)
			}
			if c.SplitExpr == nil {
				c.SplitExpr, c.SplitVals = e, vals
			} else {
				c.MoreSplits = append(c.MoreSplits, splitSpec{e, vals})
			}
		case "nosafety":
			// run-time safety (bounds, nil, ...) of this function is not claimed; the reason is reported as an assumption
			c.NoSafety = strings.TrimSpace(rest)
			if c.NoSafety == "" {
				return fail("nosafety needs a reason")
			}
		case "needs":
			c.Uses = append(c.Uses, strings.Fields(rest)...)
		case "mode":
			c.Mode = strings.TrimSpace(rest)
			if c.Mode != "bits" && c.Mode != "math" {
				return fail("unknown mode %q", c.Mode)
			}
		case "inline":
			c.Inline = true
		case "per-return":
			c.PerReturn = true
		case "pure":
			c.Pure = true
		case "trusted":
			c.Trusted = true
			cs.Scan = append(cs.Scan, fmt.Sprintf("trusted contract: %s (%s:%d)", c.Key(), filepath.Base(path), l.line))
		case "arch":
			c.Arch = strings.TrimSpace(rest)
			cs.Scan = append(cs.Scan, fmt.Sprintf("arch %s conversion model: %s", c.Arch, c.Key()))
		case "timeout":
			c.Timeout, _ = strconv.Atoi(strings.TrimSpace(rest))
		case "note":
			c.Notes = append(c.Notes, strings.TrimSpace(rest))
		case "requires":
			cl, err := parseClause(rest)
			if err != nil {
				return err
			}
			c.Requires = append(c.Requires, cl)
		case "ensures":
			cl, err := parseClause(rest)
			if err != nil {
				return err
			}
			c.Ensures = append(c.Ensures, cl)
		case "modifies":
			c.HasMod = true
			c.Modifies = append(c.Modifies, strings.Fields(rest)...)
		case "ignores":
			c.Ignores = append(c.Ignores, strings.Fields(rest)...)
			cs.Scan = append(cs.Scan, fmt.Sprintf("ignores (havocked at entry) %s: %s", rest, c.Key()))
		case "let":
			name, body := splitWord(strings.TrimSpace(rest))
			e, err := parseSexp(body)
			if err != nil {
				return fail("%v", err)
			}
			c.Lets = append(c.Lets, LetDef{Name: name, Expr: e})
		case "invariant", "decreases", "step":
			ks, body := splitWord(strings.TrimSpace(rest))
			k, err := strconv.Atoi(ks)
			if err != nil {
				return fail("loop ordinal expected after %s", kw)
			}
			cl, err := parseClause(body)
			if err != nil {
				return err
			}
			ls := c.Loops[k]
			if ls == nil {
				ls = &LoopSpec{}
				c.Loops[k] = ls
			}
			if kw == "invariant" {
				ls.Invariants = append(ls.Invariants, cl)
			} else if kw == "step" {
				ls.Steps = append(ls.Steps, cl)
			} else {
				ls.Decreases = &cl
			}
		case "at":
			// at call <callee>#<n> assert [label] <sexp>
			f := strings.Fields(rest)
			if len(f) < 4 || f[0] != "call" || f[2] != "assert" {
				return fail("expected: at call <callee>[#n] assert [label] <formula>")
			}
			callee, n := f[1], -1
			if i := strings.LastIndex(callee, "#"); i >= 0 {
				n, err = strconv.Atoi(callee[i+1:])
				if err != nil {
					return fail("bad call ordinal")
				}
				callee = callee[:i]
			}
			idx := strings.Index(rest, "assert")
			cl, err := parseClause(rest[idx+len("assert"):])
			if err != nil {
				return err
			}
			c.AtCalls = append(c.AtCalls, AtCall{Callee: callee, N: n, Clause: cl})
		default:
			return fail("unknown contract keyword %q", kw)
		}
	}
	for _, cl := range cs.ByFunc {
		for _, c := range cl {
			if c.Mode == "math" && c.File == path {
				// recorded once per contract below
			}
		}
	}
	return nil
}

func splitWord(s string) (string, string) {
	s = strings.TrimSpace(s)
	i := strings.IndexAny(s, " \t\n")
	if i < 0 {
		return s, ""
	}
	return s[:i], strings.TrimSpace(s[i+1:])
}

var modPathCache = map[string]string{}

func modulePath(repo string) string {
	if p, ok := modPathCache[repo]; ok {
		return p
	}
	data, err := os.ReadFile(filepath.Join(repo, "go.mod"))
	p := ""
	if err == nil {
		for _, l := range strings.Split(string(data), "\n") {
			l = strings.TrimSpace(l)
			if strings.HasPrefix(l, "module ") {
				p = strings.TrimSpace(strings.TrimPrefix(l, "module "))
				break
			}
		}
	}
	modPathCache[repo] = p
	return p
}

// propertyOfLabel returns the property id prefix of a label like C08.nat.minimal ("" if none).
func propertyOfLabel(l string) string {
	if len(l) >= 3 && l[0] == 'C' && l[1] >= '0' && l[1] <= '9' {
		i := 1
		for i < len(l) && l[i] >= '0' && l[i] <= '9' {
			i++
		}
		if i == len(l) || l[i] == '.' {
			return l[:i]
		}
	}
	return ""
}

// clauseCountsFor reports whether a clause counts for property id: it carries a label of
// that property, or it carries no property label at all (helper clause).
func clauseCountsFor(labels []string, prop string) bool {
	any := false
	for _, l := range labels {
		if p := propertyOfLabel(l); p != "" {
			any = true
			if p == prop {
				return true
			}
		}
	}
	return !any
}

func hasPropLabel(labels []string, prop string) bool {
	for _, l := range labels {
		if propertyOfLabel(l) == prop {
			return true
		}
	}
	return false
}

type splitSpec struct {
	expr *Sexp
	vals []*Sexp
}

// cases returns the per-case copies of a contract with a split clause (the contract itself otherwise).
func (c *Contract) cases() []*Contract {
	if c.SplitExpr == nil {
		return []*Contract{c}
	}
	var out []*Contract
	var nots []*Sexp
	for _, v := range c.SplitVals {
		cp := *c
		eq := &Sexp{IsL: true, List: []*Sexp{{Atom: "="}, c.SplitExpr, v}}
		cp.Requires = append(append([]Clause{}, c.Requires...), Clause{Labels: []string{"case"}, Expr: eq, Text: eq.String(), File: c.File, Line: c.Line})
		cp.CaseTag = "[" + c.SplitExpr.String() + "=" + v.String() + "]"
		if !c.SplitExpr.IsL {
			cp.BindName, cp.BindVal = c.SplitExpr.Atom, v
		}
		cp.SplitExpr = nil
		if len(c.MoreSplits) > 0 {
			cp.SplitExpr, cp.SplitVals, cp.MoreSplits = c.MoreSplits[0].expr, c.MoreSplits[0].vals, c.MoreSplits[1:]
			for _, sub := range cp.cases() {
				sub.CaseTag = "[" + c.SplitExpr.String() + "=" + v.String() + "]" + strings.TrimPrefix(sub.CaseTag, cp.CaseTag)
				if sub.BindName == "" {
					sub.BindName, sub.BindVal = cp.BindName, cp.BindVal
				}
				out = append(out, sub)
			}
		} else {
			out = append(out, &cp)
		}
		nots = append(nots, &Sexp{IsL: true, List: []*Sexp{{Atom: "not"}, eq}})
	}
	cp := *c
	rest := &Sexp{IsL: true, List: append([]*Sexp{{Atom: "and"}}, nots...)}
	cp.Requires = append(append([]Clause{}, c.Requires...), Clause{Labels: []string{"case"}, Expr: rest, Text: rest.String(), File: c.File, Line: c.Line})
	cp.CaseTag = "[" + c.SplitExpr.String() + "=other]"
	cp.SplitExpr = nil
	cp.MoreSplits = nil
	out = append(out, &cp)
	return out
}
