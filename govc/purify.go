package main

import (
	"fmt"
	"regexp"
	"strings"
)

// Pure-arithmetic attempt for obligations of the real-number reading.
//
// The full VC mixes non-linear real arithmetic with datatypes, arrays and uninterpreted functions; z3's complete
// procedure for non-linear reals (nlsat) only runs on pure arithmetic. pureText builds a weakening of the obligation
// that is pure quantifier-free arithmetic:
//   - nullary definitions of arithmetic sort are kept when their bodies are arithmetic, otherwise the defined name
//     becomes an unconstrained constant;
//   - every other non-arithmetic subterm of arithmetic sort (selector on a struct value, array read, sin/cos/acos
//     application, ...) is replaced by a fresh constant, the same constant for the same term text;
//   - (dis)equalities between non-arithmetic values become fresh Booleans (same text, same Boolean);
//   - assumptions that cannot be translated, or that do not mention a symbol the goal depends on, are dropped;
//   - spec-library functions with arithmetic bodies are kept as they are.
// Every model of the original formulas extends to a model of the weakened ones (give each fresh constant the value of
// the term it stands for), so "unsat" carries over. "sat" means nothing and is ignored.

var numRe2 = regexp.MustCompile(`^-?[0-9]+(\.[0-9]+)?$`)

var arithOps = map[string]bool{"+": true, "-": true, "*": true, "/": true, "<=": true, "<": true, ">=": true, ">": true,
	"and": true, "or": true, "not": true, "=>": true, "xor": true, "to_real": true, "to_int": true, "abs": true, "mod": true, "div": true, "is_int": true}

func arithSort(s string) bool { return s == "Real" || s == "Int" || s == "Bool" }

type specFun struct {
	params []string
	psorts []string
	ret    string
	body   *Sexp
	state  int // 0 unknown, 1 pure (emitted), 2 impure
}

type purifier struct {
	defs      map[string][2]interface{} // name -> (sort string, body *Sexp)
	constSort map[string]string
	selSort   map[string]string
	ufRet     map[string]string
	spec      map[string]*specFun
	emitted   map[string]bool
	abstr     map[string]string // term text -> fresh name
	out       []string
	n         int
	usesInt   bool
	realOnly  bool
}

// okSort: sorts that may appear in the output (real-only mode abstracts every integer-valued term away, so that the
// result is pure non-linear real arithmetic).
func (p *purifier) okSort(s string) bool {
	return s == "Real" || s == "Bool" || (s == "Int" && !p.realOnly)
}

func (p *purifier) fresh(text, sort string) string {
	key := sort + "|" + text
	if n, ok := p.abstr[key]; ok {
		return n
	}
	p.n++
	n := fmt.Sprintf("abs!%d", p.n)
	p.abstr[key] = n
	c := text
	if len(c) > 160 {
		c = c[:160] + "..."
	}
	p.out = append(p.out, fmt.Sprintf("(declare-const %s %s) ; %s", n, sort, strings.ReplaceAll(c, "\n", " ")))
	if sort == "Int" {
		p.usesInt = true
	}
	return n
}

// sortOfTerm: best-effort sort of a term that is about to be abstracted ("" = unknown).
func (p *purifier) sortOfTerm(s *Sexp) string {
	if !s.IsL {
		if d, ok := p.defs[s.Atom]; ok {
			return d[0].(string)
		}
		if numRe2.MatchString(s.Atom) {
			if strings.Contains(s.Atom, ".") {
				return "Real"
			}
			return "Int"
		}
		return p.constSort[s.Atom]
	}
	if len(s.List) == 0 {
		return ""
	}
	if s.List[0].IsL {
		// ((_ is C) x)
		if h := s.List[0]; len(h.List) == 3 && h.List[0].Atom == "_" && h.List[1].Atom == "is" {
			return "Bool"
		}
		return ""
	}
	h := s.List[0].Atom
	switch h {
	case "=", "distinct", "<=", "<", ">=", ">", "and", "or", "not", "=>", "xor", "is_int":
		return "Bool"
	case "to_real", "/":
		return "Real"
	case "to_int", "mod", "div":
		return "Int"
	case "+", "-", "*", "abs":
		if len(s.List) > 1 {
			return p.sortOfTerm(s.List[1])
		}
		return ""
	case "select":
		as := p.sortOfTerm(s.List[1])
		if strings.HasPrefix(as, "(Array ") {
			if sx, err := parseSexp(as); err == nil && len(sx.List) == 3 {
				return sx.List[2].String()
			}
		}
		return ""
	case "ite":
		if len(s.List) == 4 {
			return p.sortOfTerm(s.List[2])
		}
	}
	if r, ok := p.selSort[h]; ok {
		return r
	}
	if r, ok := p.ufRet[h]; ok {
		return r
	}
	if f, ok := p.spec[h]; ok {
		return f.ret
	}
	return ""
}

func (p *purifier) ensureDef(name string) (string, bool) {
	d := p.defs[name]
	sort := d[0].(string)
	if !p.okSort(sort) {
		return "", false
	}
	if p.emitted[name] {
		return name, true
	}
	p.emitted[name] = true // (definitions are acyclic)
	body, ok := p.pure(d[1].(*Sexp), nil)
	if ok {
		p.out = append(p.out, fmt.Sprintf("(define-fun %s () %s %s)", name, sort, body))
	} else {
		p.out = append(p.out, fmt.Sprintf("(declare-const %s %s) ; abstracted", name, sort))
	}
	if sort == "Int" {
		p.usesInt = true
	}
	return name, true
}

func (p *purifier) specPure(name string) bool {
	f := p.spec[name]
	if f.state != 0 {
		return f.state == 1
	}
	f.state = 2
	for _, s := range f.psorts {
		if !p.okSort(s) {
			return false
		}
	}
	if !p.okSort(f.ret) {
		return false
	}
	bound := map[string]bool{}
	for _, q := range f.params {
		bound[q] = true
	}
	body, ok := p.pure(f.body, bound)
	if !ok {
		return false
	}
	var ps []string
	for i := range f.params {
		ps = append(ps, fmt.Sprintf("(%s %s)", f.params[i], f.psorts[i]))
		if f.psorts[i] == "Int" {
			p.usesInt = true
		}
	}
	p.out = append(p.out, fmt.Sprintf("(define-fun %s (%s) %s %s)", name, strings.Join(ps, " "), f.ret, body))
	f.state = 1
	return true
}

// abstract replaces s by a fresh constant when its sort is arithmetic and known.
func (p *purifier) abstract(s *Sexp, bound map[string]bool) (string, bool) {
	if len(bound) > 0 && mentionsBound(s, bound) {
		return "", false
	}
	sort := p.sortOfTerm(s)
	if !p.okSort(sort) {
		return "", false
	}
	return p.fresh(s.String(), sort), true
}

func mentionsBound(s *Sexp, bound map[string]bool) bool {
	if !s.IsL {
		return bound[s.Atom]
	}
	for _, c := range s.List {
		if mentionsBound(c, bound) {
			return true
		}
	}
	return false
}

func (p *purifier) pure(s *Sexp, bound map[string]bool) (string, bool) {
	if !s.IsL {
		a := s.Atom
		switch {
		case numRe2.MatchString(a), a == "true", a == "false":
			if p.realOnly && numRe2.MatchString(a) && !strings.Contains(a, ".") {
				return "", false
			}
			return a, true
		case bound[a]:
			return a, true
		}
		if _, ok := p.defs[a]; ok {
			return p.ensureDef(a)
		}
		if srt, ok := p.constSort[a]; ok && p.okSort(srt) {
			if !p.emitted[a] {
				p.emitted[a] = true
				p.out = append(p.out, fmt.Sprintf("(declare-const %s %s)", a, srt))
				if srt == "Int" {
					p.usesInt = true
				}
			}
			return a, true
		}
		return "", false
	}
	if len(s.List) == 0 {
		return "", false
	}
	if s.List[0].IsL {
		return p.abstract(s, bound)
	}
	h := s.List[0].Atom
	switch {
	case arithOps[h]:
		if h == "to_int" || h == "mod" || h == "div" || h == "is_int" {
			p.usesInt = true
		}
		if p.realOnly && (h == "to_int" || h == "mod" || h == "div") {
			return "", false
		}
		parts := []string{h}
		for _, c := range s.List[1:] {
			t, ok := p.pure(c, bound)
			if !ok {
				return p.abstract(s, bound)
			}
			parts = append(parts, t)
		}
		if p.realOnly && p.sortOfTerm(s) == "Int" {
			return "", false
		}
		return "(" + strings.Join(parts, " ") + ")", true
	case h == "=" || h == "distinct":
		parts := []string{h}
		for _, c := range s.List[1:] {
			t, ok := p.pure(c, bound)
			if !ok {
				return p.abstract(s, bound) // comparison of non-arithmetic values: a fresh Boolean
			}
			parts = append(parts, t)
		}
		return "(" + strings.Join(parts, " ") + ")", true
	case h == "ite" && len(s.List) == 4:
		c, ok1 := p.pure(s.List[1], bound)
		a, ok2 := p.pure(s.List[2], bound)
		b, ok3 := p.pure(s.List[3], bound)
		if ok1 && ok2 && ok3 {
			return fmt.Sprintf("(ite %s %s %s)", c, a, b), true
		}
		return p.abstract(s, bound)
	case h == "let" && len(s.List) == 3 && s.List[1].IsL:
		nb := map[string]bool{}
		for k := range bound {
			nb[k] = true
		}
		var bs []string
		for _, b := range s.List[1].List {
			if !b.IsL || len(b.List) != 2 || b.List[0].IsL {
				return "", false
			}
			t, ok := p.pure(b.List[1], bound)
			if !ok {
				return "", false
			}
			bs = append(bs, fmt.Sprintf("(%s %s)", b.List[0].Atom, t))
		}
		for _, b := range s.List[1].List {
			nb[b.List[0].Atom] = true
		}
		body, ok := p.pure(s.List[2], nb)
		if !ok {
			return "", false
		}
		return fmt.Sprintf("(let (%s) %s)", strings.Join(bs, " "), body), true
	case h == "forall" || h == "exists":
		return "", false
	}
	if _, ok := p.spec[h]; ok && p.specPure(h) {
		parts := []string{h}
		for _, c := range s.List[1:] {
			t, ok := p.pure(c, bound)
			if !ok {
				return p.abstract(s, bound)
			}
			parts = append(parts, t)
		}
		return "(" + strings.Join(parts, " ") + ")", true
	}
	return p.abstract(s, bound)
}

// pureText returns the pure-arithmetic weakening of the obligation ("" when the goal itself cannot be translated).
func (o *Obl) pureText(realOnly bool) string {
	vc := o.vc
	if vc == nil || vc.mode != Math || o.Raw != "" || o.ExpectSat {
		return ""
	}
	pre, err := vc.prelude()
	if err != nil {
		return ""
	}
	p := &purifier{defs: map[string][2]interface{}{}, constSort: map[string]string{}, selSort: map[string]string{}, ufRet: map[string]string{},
		spec: map[string]*specFun{}, emitted: map[string]bool{}, abstr: map[string]string{}, realOnly: realOnly}
	psx, err := parseSexps(pre)
	if err != nil {
		return ""
	}
	noteDecl := func(s *Sexp) {
		switch s.Head() {
		case "declare-datatypes":
			// (declare-datatypes ((T 0)) (((ctor (sel sort) ...) ...)))
			if len(s.List) == 3 && s.List[2].IsL {
				for _, dt := range s.List[2].List {
					for _, ctor := range dt.List {
						if !ctor.IsL {
							continue
						}
						for _, f := range ctor.List[1:] {
							if f.IsL && len(f.List) == 2 && !f.List[0].IsL {
								p.selSort[f.List[0].Atom] = f.List[1].String()
							}
						}
					}
				}
			}
		case "declare-fun":
			if len(s.List) == 4 && !s.List[1].IsL {
				if len(s.List[2].List) == 0 {
					p.constSort[s.List[1].Atom] = s.List[3].String()
				} else {
					p.ufRet[s.List[1].Atom] = s.List[3].String()
				}
			}
		case "declare-const":
			if len(s.List) == 3 && !s.List[1].IsL {
				p.constSort[s.List[1].Atom] = s.List[2].String()
			}
		case "define-fun":
			if len(s.List) == 5 && !s.List[1].IsL && s.List[2].IsL {
				if len(s.List[2].List) == 0 {
					p.defs[s.List[1].Atom] = [2]interface{}{s.List[3].String(), s.List[4]}
					return
				}
				f := &specFun{ret: s.List[3].String(), body: s.List[4]}
				for _, q := range s.List[2].List {
					if !q.IsL || len(q.List) != 2 {
						return
					}
					f.params = append(f.params, q.List[0].String())
					f.psorts = append(f.psorts, q.List[1].String())
				}
				p.spec[s.List[1].Atom] = f
			}
		}
	}
	for _, s := range psx {
		noteDecl(s)
	}
	var asserts []*Sexp
	relevant := o.cone()
	scan := func(l string, keepAsserts bool) bool {
		l = strings.TrimSpace(l)
		if l == "" || strings.HasPrefix(l, ";") {
			return true
		}
		s, err := parseSexp(l)
		if err != nil {
			return false
		}
		if s.Head() == "assert" {
			if keepAsserts && len(s.List) == 2 && mentionsAny(l, relevant) {
				asserts = append(asserts, s.List[1])
			}
			return true
		}
		noteDecl(s)
		return true
	}
	for _, l := range vc.decls {
		if !scan(l, false) {
			return ""
		}
	}
	for _, l := range vc.lines[:o.Prefix] {
		if !scan(l, true) {
			return ""
		}
	}
	gs, err := parseSexp(fmt.Sprintf("(=> %s %s)", o.PC, o.Goal))
	if err != nil {
		return ""
	}
	goal, ok := p.pure(gs, nil)
	if !ok {
		// without the path condition (a stronger claim)
		g2, err2 := parseSexp(o.Goal)
		if err2 != nil {
			return ""
		}
		goal, ok = p.pure(g2, nil)
		if !ok {
			return ""
		}
	}
	// relevance in the purified space: keep an assumption only if it mentions a name the purified goal depends on
	// (struct fields are separate constants here, so the hundreds of range facts about unrelated fields fall away)
	pdefs := map[string]string{}
	for _, l := range p.out {
		if strings.HasPrefix(l, "(define-fun ") {
			f := strings.Fields(l[len("(define-fun "):])
			pdefs[f[0]] = l
		}
	}
	reach := map[string]bool{}
	var visit func(text string)
	visit = func(text string) {
		for _, tok := range symRe.FindAllString(text, -1) {
			if reach[tok] {
				continue
			}
			reach[tok] = true
			if d, ok := pdefs[tok]; ok {
				visit(d)
			}
		}
	}
	visit(goal)
	for k := range arithOps {
		delete(reach, k)
	}
	for _, k := range []string{"=", "ite", "let", "true", "false", "distinct"} {
		delete(reach, k)
	}
	for k := range reach {
		if numRe2.MatchString(k) {
			delete(reach, k)
		}
	}
	var as []string
	for _, a := range asserts {
		if t, ok := p.pure(a, nil); ok && mentionsAny(t, reach) {
			as = append(as, fmt.Sprintf("(assert %s)", t))
		}
	}
	var b strings.Builder
	b.WriteString("; obligation: " + o.Name + "\n; pure-arithmetic weakening (see purify.go): unsat carries over to the full obligation, sat does not\n")
	if p.usesInt {
		b.WriteString("(set-logic QF_NIRA)\n")
	} else {
		b.WriteString("(set-logic QF_NRA)\n")
	}
	for _, l := range p.out {
		b.WriteString(l + "\n")
	}
	for _, l := range as {
		b.WriteString(l + "\n")
	}
	b.WriteString(fmt.Sprintf("(assert (not %s))\n(check-sat)\n", goal))
	return b.String()
}
