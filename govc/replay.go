package main

import (
	"context"
	"encoding/json"
	"fmt"
	"go/types"
	"os"
	"os/exec"
	"path/filepath"
	"sort"
	"strconv"
	"strings"
	"time"

	"golang.org/x/tools/go/ssa"
)

// leaf is one scalar component of a Go value, with the SMT term that denotes it.
type leaf struct {
	path string // Go-side path relative to the root variable: .f[3].g  (slices: [i], #len)
	term string
	typ  types.Type
}

// flatten lists the scalar leaves of a value of Go type t denoted by term.
func (vc *VC) flatten(term string, t types.Type, path string, st *State, out *[]leaf, ok *bool, depth int) {
	if depth > 6 {
		*ok = false
		return
	}
	switch u := t.Underlying().(type) {
	case *types.Basic:
		if isString(t) {
			*ok = false
			return
		}
		*out = append(*out, leaf{path, term, t})
	case *types.Struct:
		name := vc.S.sortOf(t)
		for i := 0; i < u.NumFields(); i++ {
			f := u.Field(i)
			switch f.Type().Underlying().(type) {
			case *types.Interface, *types.Pointer, *types.Signature, *types.Map, *types.Chan:
				continue // not reproduced (left at zero value)
			}
			vc.flatten(fmt.Sprintf("(%s.%s %s)", name, f.Name(), term), f.Type(), path+"."+f.Name(), st, out, ok, depth+1)
		}
	case *types.Array:
		if u.Len() > 64 {
			*ok = false
			return
		}
		for i := int64(0); i < u.Len(); i++ {
			vc.flatten(fmt.Sprintf("(select %s %s)", term, vc.S.idxLit(i)), u.Elem(), fmt.Sprintf("%s[%d]", path, i), st, out, ok, depth+1)
		}
	case *types.Slice:
		if _, isB := u.Elem().Underlying().(*types.Basic); !isB {
			// slices of structs: lengths only
			*out = append(*out, leaf{path + "#len", fmt.Sprintf("(s.len %s)", term), types.Typ[types.Int]})
			return
		}
		*out = append(*out, leaf{path + "#len", fmt.Sprintf("(s.len %s)", term), types.Typ[types.Int]})
		*out = append(*out, leaf{path + "#cap", fmt.Sprintf("(s.cap %s)", term), types.Typ[types.Int]})
		m := vc.memTerm(st, u.Elem())
		for i := int64(0); i < replaySliceElems; i++ {
			*out = append(*out, leaf{fmt.Sprintf("%s[%d]", path, i), fmt.Sprintf("(select (select %s (s.rgn %s)) %s)", m, term, vc.idxAdd(fmt.Sprintf("(s.off %s)", term), vc.S.idxLit(i))), u.Elem()})
		}
	default:
		*ok = false
	}
}

const replaySliceElems = 24

// parseValue turns an SMT value into raw bits (for ints/bools/floats).
func parseValue(s *Sexp, t types.Type) (uint64, bool) {
	if !s.IsL {
		a := s.Atom
		switch {
		case a == "true":
			return 1, true
		case a == "false":
			return 0, true
		case strings.HasPrefix(a, "#x"):
			v, err := strconv.ParseUint(a[2:], 16, 64)
			return v, err == nil
		case strings.HasPrefix(a, "#b"):
			v, err := strconv.ParseUint(a[2:], 2, 64)
			return v, err == nil
		default:
			v, err := strconv.ParseInt(a, 10, 64)
			return uint64(v), err == nil
		}
	}
	if len(s.List) == 2 && s.List[0].Atom == "-" {
		v, ok := parseValue(s.List[1], t)
		return uint64(-int64(v)), ok
	}
	fb, isF := isFloat(t)
	if !isF {
		return 0, false
	}
	eb, mb := 8, 23
	if fb == 64 {
		eb, mb = 11, 52
	}
	if s.Head() == "fp" && len(s.List) == 4 {
		sg, ok1 := parseValue(s.List[1], types.Typ[types.Uint64])
		ex, ok2 := parseValue(s.List[2], types.Typ[types.Uint64])
		mn, ok3 := parseValue(s.List[3], types.Typ[types.Uint64])
		return sg<<uint(eb+mb) | ex<<uint(mb) | mn, ok1 && ok2 && ok3
	}
	if s.Head() == "_" && len(s.List) == 4 {
		allExp := (uint64(1)<<uint(eb) - 1) << uint(mb)
		switch s.List[1].Atom {
		case "+zero":
			return 0, true
		case "-zero":
			return 1 << uint(eb+mb), true
		case "+oo":
			return allExp, true
		case "-oo":
			return allExp | 1<<uint(eb+mb), true
		case "NaN":
			return allExp | 1<<uint(mb-1), true
		}
	}
	return 0, false
}

// bitsLit renders raw bits as an SMT literal of type t.
func (vc *VC) bitsLit(bits uint64, t types.Type) string {
	if isBool(t) {
		if bits != 0 {
			return "true"
		}
		return "false"
	}
	if fb, ok := isFloat(t); ok {
		if fb == 32 {
			return fmt.Sprintf("((_ to_fp 8 24) #x%08x)", uint32(bits))
		}
		return fmt.Sprintf("((_ to_fp 11 53) #x%016x)", bits)
	}
	if b, _, ok := isInt(t); ok {
		if b == 64 {
			return fmt.Sprintf("#x%016x", bits)
		}
		return fmt.Sprintf("#x%0*x", b/4, bits&(uint64(1)<<uint(b)-1))
	}
	return "?"
}

type replayRoot struct {
	name   string // Go variable name in the harness
	src    string // contract-level name (param name / result.N)
	typ    types.Type
	isPtr  bool
	leaves []leaf
}

// replay reproduces the solver's counterexample on the real function (bit-precise reading, top-level postconditions).
func (eng *Engine) replay(o *Obl) map[string]interface{} {
	res := map[string]interface{}{}
	vc := o.vc
	if vc == nil || vc.mode != Bits || o.Kind != "ensures" || vc.fn == nil || vc.final == nil {
		res["skipped"] = "replay is implemented for postconditions of bit-precise contracts only"
		return res
	}
	fn := vc.fn
	if fn.Parent() != nil || fn.Pkg == nil || fn.Object() == nil {
		res["skipped"] = "anonymous function: not callable from a test"
		return res
	}
	// 1. inputs
	var inputs []*replayRoot
	okAll := true
	for i, p := range fn.Params {
		sv := vc.top.params[p.Name()]
		r := &replayRoot{name: fmt.Sprintf("in%d", i), src: p.Name(), typ: p.Type()}
		if sv.P != nil {
			r.isPtr = true
			r.typ = sv.P.typ
			ent := vc.entry.objs[sv.P.obj]
			vc.flatten(ent.T, sv.P.typ, "", vc.entry, &r.leaves, &okAll, 0)
		} else {
			switch p.Type().Underlying().(type) {
			case *types.Interface, *types.Signature, *types.Map, *types.Chan, *types.Pointer:
				okAll = false
			default:
				vc.flatten(sv.T, p.Type(), "", vc.entry, &r.leaves, &okAll, 0)
			}
		}
		inputs = append(inputs, r)
	}
	if !okAll {
		res["skipped"] = "a parameter has a type the harness cannot construct (interface, function, string, large array)"
		return res
	}
	// 2. model values for the input leaves
	var terms []string
	for _, r := range inputs {
		for _, l := range r.leaves {
			terms = append(terms, l.term)
		}
	}
	base, err := o.smtText(false)
	if err != nil || len(terms) == 0 {
		res["skipped"] = "no input leaves"
		return res
	}
	// prefer small slices in the witness: try with length bounds first, fall back to the unconstrained model
	var small []string
	for _, r := range inputs {
		for _, l := range r.leaves {
			if strings.HasSuffix(l.path, "#len") {
				small = append(small, fmt.Sprintf("(assert (bvule %s #x0000000000000010))", l.term))
			} else if strings.HasSuffix(l.path, "#cap") {
				small = append(small, fmt.Sprintf("(assert (bvule %s #x0000000000000040))", l.term))
			}
		}
	}
	gidx := strings.LastIndex(base, "(check-sat)")
	gvFile := strings.TrimSuffix(o.SMTFile, ".smt2") + ".getvalue.smt2"
	var vals []*Sexp
	for attempt := 0; attempt < 2 && len(vals) != len(terms); attempt++ {
		extra := ""
		if attempt == 0 {
			if len(small) == 0 {
				continue
			}
			extra = strings.Join(small, "\n") + "\n"
		}
		gv := base[:gidx] + extra + base[gidx:] + "(get-value (" + strings.Join(terms, "\n ") + "))\n"
		os.WriteFile(gvFile, []byte(gv), 0o644)
		vals = nil
		for _, sd := range solvers {
			if o.Solver != "" && o.Solver != "all" && sd.name != o.Solver {
				continue
			}
			r := runSolverFull(sd, gvFile, 120)
			if i := strings.Index(r, "sat"); i >= 0 && !strings.HasPrefix(strings.TrimSpace(r), "unsat") {
				rest := r[i+3:]
				sx, err := parseSexps(rest)
				if err == nil && len(sx) > 0 && sx[0].IsL && len(sx[0].List) == len(terms) {
					for _, pair := range sx[0].List {
						if pair.IsL && len(pair.List) == 2 {
							vals = append(vals, pair.List[1])
						}
					}
					break
				}
			}
		}
	}
	if len(vals) != len(terms) {
		res["skipped"] = "could not obtain values for the inputs from the solver"
		return res
	}
	k := 0
	inputBits := map[string]uint64{}
	var pins []string
	var inputDesc []string
	for _, r := range inputs {
		for _, l := range r.leaves {
			b, ok := parseValue(vals[k], l.typ)
			if !ok {
				res["skipped"] = "unparsable model value " + vals[k].String()
				return res
			}
			inputBits[r.name+l.path] = b
			if !strings.HasSuffix(l.path, "#cap") {
				pins = append(pins, fmt.Sprintf("(assert (= %s %s))", l.term, vc.bitsLit(b, l.typ)))
			}
			if b != 0 {
				inputDesc = append(inputDesc, fmt.Sprintf("%s%s=%#x", r.src, l.path, b))
			}
			k++
		}
	}
	res["inputs_nonzero"] = inputDesc
	// 3. harness
	outs, runOut, err := eng.runHarness(vc, fn, inputs, inputBits)
	res["go_test_output"] = firstLines(runOut, 30)
	if err != nil {
		res["skipped"] = "harness: " + err.Error()
		return res
	}
	// 4. pin the symbolic outputs to the real outputs and re-ask the solver
	var outPins []string
	var outDesc []string
	okAll = true
	for _, fr := range vc.final {
		var ls []leaf
		vc.flatten(fr.term, fr.typ, "", fr.st, &ls, &okAll, 0)
		for _, l := range ls {
			if strings.HasSuffix(l.path, "#cap") {
				continue
			}
			key := fr.goName + l.path
			b, has := outs[key]
			if !has {
				continue
			}
			if strings.Contains(l.path, "[") && strings.Contains(l.path, "#") == false {
				// slice elements beyond the real length are not pinned
				if ln, hasLen := outs[fr.goName+sliceLenKey(l.path)]; hasLen {
					if idx := lastIndexOf(l.path); idx >= 0 && uint64(idx) >= ln {
						continue
					}
				}
			}
			outPins = append(outPins, fmt.Sprintf("(assert (= %s %s))", l.term, vc.bitsLit(b, l.typ)))
			if len(outDesc) < 40 {
				outDesc = append(outDesc, fmt.Sprintf("%s%s=%#x", fr.src, l.path, b))
			}
		}
	}
	res["real_outputs"] = outDesc
	idx := strings.LastIndex(base, "; ---- goal")
	confirm := base[:idx] + "; ---- pinned inputs (solver model)\n" + strings.Join(pins, "\n") + "\n; ---- pinned outputs (real code)\n" + strings.Join(outPins, "\n") + "\n" + base[idx:]
	cf := strings.TrimSuffix(o.SMTFile, ".smt2") + ".confirm.smt2"
	os.WriteFile(cf, []byte(confirm), 0o644)
	res["confirm_query"] = cf
	verdict := "unknown"
	for _, sd := range solvers {
		r := runSolver(context.Background(), sd, cf, 60)
		if r.status == "sat" || r.status == "unsat" {
			verdict = r.status
			break
		}
	}
	res["confirm_result"] = verdict
	res["confirmed"] = verdict == "sat"
	if verdict == "sat" {
		res["meaning"] = "with the inputs fixed to the solver's model and the outputs fixed to what the real function returned, the contract clause is false"
	} else if verdict == "unsat" {
		res["meaning"] = "the real function's outputs on the model inputs do not falsify the clause (the model exploits an abstraction) or differ from the symbolic semantics"
	}
	return res
}

func sliceLenKey(path string) string {
	i := strings.LastIndex(path, "[")
	return path[:i] + "#len"
}

func lastIndexOf(path string) int {
	i := strings.LastIndex(path, "[")
	j := strings.LastIndex(path, "]")
	if i < 0 || j < i {
		return -1
	}
	v, err := strconv.Atoi(path[i+1 : j])
	if err != nil {
		return -1
	}
	return v
}

func runSolverFull(sd solverDef, file string, secs int) string {
	args := sd.args(file, secs)
	ctx, cancel := context.WithTimeout(context.Background(), time.Duration(secs+5)*time.Second)
	defer cancel()
	out, _ := exec.CommandContext(ctx, args[0], args[1:]...).CombinedOutput()
	return string(out)
}

// finalRoot is a symbolic output of the function (result or post-state of a pointee).
type finalRoot struct {
	goName string
	src    string
	term   string
	typ    types.Type
	st     *State
}

// runHarness generates an in-package test (injected with -overlay), runs it and parses the REPLAY lines.
func (eng *Engine) runHarness(vc *VC, fn *ssa.Function, inputs []*replayRoot, bits map[string]uint64) (map[string]uint64, string, error) {
	pkg := fn.Pkg.Pkg
	imports := map[string]string{}
	qual := func(p *types.Package) string {
		if p == pkg {
			return ""
		}
		imports[p.Path()] = p.Name()
		return p.Name()
	}
	var b strings.Builder
	var body strings.Builder
	for _, r := range inputs {
		fmt.Fprintf(&body, "\tvar %s %s\n", r.name, types.TypeString(r.typ, qual))
		// slices first (allocate), then leaves
		for _, l := range r.leaves {
			if strings.HasSuffix(l.path, "#len") {
				ln := bits[r.name+l.path]
				cp := bits[r.name+strings.TrimSuffix(l.path, "#len")+"#cap"]
				if ln > 1<<16 {
					return nil, "", fmt.Errorf("model slice length %d too large to replay", ln)
				}
				if cp < ln || cp > 1<<16 {
					cp = ln
				}
				fmt.Fprintf(&body, "\tzzMake(&%s, %q, %d, %d)\n", r.name, strings.TrimSuffix(l.path, "#len"), ln, cp)
			}
		}
		for _, l := range r.leaves {
			if strings.Contains(l.path, "#") {
				continue
			}
			v := bits[r.name+l.path]
			if v != 0 {
				fmt.Fprintf(&body, "\tzzSet(&%s, %q, %#x)\n", r.name, l.path, v)
			}
		}
	}
	// call
	var args []string
	sig := fn.Signature
	start := 0
	call := ""
	if sig.Recv() != nil {
		start = 1
		r := inputs[0]
		if r.isPtr {
			call = fmt.Sprintf("(&%s).%s", r.name, fn.Name())
		} else {
			call = fmt.Sprintf("%s.%s", r.name, fn.Name())
		}
	} else {
		call = fn.Name()
	}
	for i := start; i < len(inputs); i++ {
		r := inputs[i]
		a := r.name
		if r.isPtr {
			a = "&" + r.name
		}
		if sig.Variadic() && i == len(inputs)-1 {
			a += "..."
		}
		args = append(args, a)
	}
	nres := sig.Results().Len()
	var rn []string
	for i := 0; i < nres; i++ {
		rn = append(rn, fmt.Sprintf("out%d", i))
	}
	if nres > 0 {
		fmt.Fprintf(&body, "\t%s := %s(%s)\n", strings.Join(rn, ", "), call, strings.Join(args, ", "))
	} else {
		fmt.Fprintf(&body, "\t%s(%s)\n", call, strings.Join(args, ", "))
	}
	for i := 0; i < nres; i++ {
		fmt.Fprintf(&body, "\tzzDump(%q, &out%d)\n", fmt.Sprintf("out%d", i), i)
	}
	for _, r := range inputs {
		if r.isPtr {
			fmt.Fprintf(&body, "\tzzDump(%q, &%s)\n", r.name, r.name)
		}
	}
	fmt.Fprintf(&b, "package %s\n\nimport (\n\t\"fmt\"\n\t\"math\"\n\t\"reflect\"\n\t\"strconv\"\n\t\"strings\"\n\t\"testing\"\n\t\"unsafe\"\n", pkg.Name())
	var ips []string
	for p := range imports {
		ips = append(ips, p)
	}
	sort.Strings(ips)
	for _, p := range ips {
		fmt.Fprintf(&b, "\t%s %q\n", imports[p], p)
	}
	b.WriteString(")\n\nfunc TestZZReplay(t *testing.T) {\n")
	b.WriteString(body.String())
	b.WriteString("}\n")
	b.WriteString(harnessHelpers)
	// write overlay
	os.MkdirAll(filepath.Join(eng.outBase(), "out"), 0o755)
	scratch, err := os.MkdirTemp(filepath.Join(eng.outBase(), "out"), "replay")
	if err != nil {
		return nil, "", err
	}
	defer os.RemoveAll(scratch)
	testSrc := filepath.Join(scratch, "zz_replay_test.go")
	os.WriteFile(testSrc, []byte(b.String()), 0o644)
	pkgDir := filepath.Dir(eng.fset.Position(fn.Pos()).Filename)
	ov := map[string]map[string]string{"Replace": {filepath.Join(pkgDir, "zz_replay_test.go"): testSrc}}
	ovData, _ := json.Marshal(ov)
	ovFile := filepath.Join(scratch, "overlay.json")
	os.WriteFile(ovFile, ovData, 0o644)
	ctx, cancel := context.WithTimeout(context.Background(), 180*time.Second)
	defer cancel()
	cmd := exec.CommandContext(ctx, "go", "test", "-overlay", ovFile, "-vet=off", "-count=1", "-timeout", "60s", "-run", "^TestZZReplay$", "-v", ".")
	cmd.Dir = pkgDir
	cmd.Env = append(os.Environ(), "GOFLAGS=-mod=mod", "GOPROXY=off", "GOSUMDB=off", "GOTOOLCHAIN=local")
	out, _ := cmd.CombinedOutput()
	text := string(out)
	outs := map[string]uint64{}
	n := 0
	for _, l := range strings.Split(text, "\n") {
		l = strings.TrimSpace(l)
		if !strings.HasPrefix(l, "REPLAY ") {
			continue
		}
		f := strings.Fields(l)
		if len(f) == 3 {
			v, err := strconv.ParseUint(f[2], 0, 64)
			if err == nil {
				outs[f[1]] = v
				n++
			}
		}
	}
	if n == 0 {
		return nil, text + "\n--- harness source ---\n" + b.String(), fmt.Errorf("the replay test produced no output (panic or build failure)")
	}
	return outs, text, nil
}

const harnessHelpers = `
func zzNav(root reflect.Value, path string) reflect.Value {
	v := root
	for len(path) > 0 {
		if path[0] == '.' {
			j := 1
			for j < len(path) && path[j] != '.' && path[j] != '[' {
				j++
			}
			v = v.FieldByName(path[1:j])
			path = path[j:]
		} else {
			j := strings.IndexByte(path, ']')
			i, _ := strconv.Atoi(path[1:j])
			if v.Kind() == reflect.Slice && i >= v.Len() {
				return reflect.Value{}
			}
			v = v.Index(i)
			path = path[j+1:]
		}
	}
	return v
}

func zzWritable(v reflect.Value) reflect.Value {
	return reflect.NewAt(v.Type(), unsafe.Pointer(v.UnsafeAddr())).Elem()
}

func zzMake(ptr interface{}, path string, n, c uint64) {
	v := zzNav(reflect.ValueOf(ptr).Elem(), path)
	if !v.IsValid() {
		return
	}
	w := zzWritable(v)
	w.Set(reflect.MakeSlice(w.Type(), int(n), int(c)))
}

func zzSet(ptr interface{}, path string, bits uint64) {
	v := zzNav(reflect.ValueOf(ptr).Elem(), path)
	if !v.IsValid() {
		return
	}
	w := zzWritable(v)
	switch w.Kind() {
	case reflect.Bool:
		w.SetBool(bits != 0)
	case reflect.Int, reflect.Int8, reflect.Int16, reflect.Int32, reflect.Int64:
		switch w.Type().Size() {
		case 1:
			w.SetInt(int64(int8(bits)))
		case 2:
			w.SetInt(int64(int16(bits)))
		case 4:
			w.SetInt(int64(int32(bits)))
		default:
			w.SetInt(int64(bits))
		}
	case reflect.Uint, reflect.Uint8, reflect.Uint16, reflect.Uint32, reflect.Uint64, reflect.Uintptr:
		w.SetUint(bits)
	case reflect.Float32:
		w.SetFloat(float64(math.Float32frombits(uint32(bits))))
	case reflect.Float64:
		w.SetFloat(math.Float64frombits(bits))
	}
}

func zzDump(name string, ptr interface{}) {
	zzDumpV(name, reflect.ValueOf(ptr).Elem())
}

func zzDumpV(name string, v reflect.Value) {
	switch v.Kind() {
	case reflect.Bool:
		b := 0
		if v.Bool() {
			b = 1
		}
		fmt.Printf("REPLAY %s %#x\n", name, b)
	case reflect.Int, reflect.Int8, reflect.Int16, reflect.Int32, reflect.Int64:
		fmt.Printf("REPLAY %s %#x\n", name, uint64(v.Int()))
	case reflect.Uint, reflect.Uint8, reflect.Uint16, reflect.Uint32, reflect.Uint64, reflect.Uintptr:
		fmt.Printf("REPLAY %s %#x\n", name, v.Uint())
	case reflect.Float32:
		fmt.Printf("REPLAY %s %#x\n", name, math.Float32bits(float32(v.Float())))
	case reflect.Float64:
		fmt.Printf("REPLAY %s %#x\n", name, math.Float64bits(v.Float()))
	case reflect.Struct:
		for i := 0; i < v.NumField(); i++ {
			zzDumpV(name+"."+v.Type().Field(i).Name, v.Field(i))
		}
	case reflect.Array:
		if v.Len() <= 64 {
			for i := 0; i < v.Len(); i++ {
				zzDumpV(fmt.Sprintf("%s[%d]", name, i), v.Index(i))
			}
		}
	case reflect.Slice:
		fmt.Printf("REPLAY %s#len %#x\n", name, v.Len())
		for i := 0; i < v.Len() && i < 24; i++ {
			zzDumpV(fmt.Sprintf("%s[%d]", name, i), v.Index(i))
		}
	}
}
`
