package main

import (
	"fmt"
	"go/token"
	"go/types"
	"sort"
	"strings"

	"golang.org/x/tools/go/ssa"
)

const maxInlineDepth = 8

func (f *Frame) call(x *ssa.Call, pc string, st *State) {
	vc := f.vc
	c := x.Common()
	if c.IsInvoke() {
		f.invoke(x, pc, st)
		return
	}
	var args []SV
	for _, a := range c.Args {
		args = append(args, f.val(a))
	}
	switch callee := c.Value.(type) {
	case *ssa.Builtin:
		f.builtin(x, callee.Name(), args, pc, st)
		return
	case *ssa.Function:
		f.setCall(x, f.callStatic(x, callee, args, nil, pc, st))
		return
	case *ssa.MakeClosure:
		var b []SV
		for _, v := range callee.Bindings {
			b = append(b, f.val(v))
		}
		f.setCall(x, f.callStatic(x, callee.Fn.(*ssa.Function), args, b, pc, st))
		return
	}
	fv := f.val(c.Value)
	if fv.F != nil {
		f.setCall(x, f.callStatic(x, fv.F.fn, args, fv.F.bindings, pc, st))
		return
	}
	vc.safety(x.Pos(), pc, "nilfunc", not(fmt.Sprintf("(= %s 0)", fv.T)), "call of nil function value")
	if fc := vc.eng.functypeContract(c.Value.Type()); fc != nil {
		f.setCall(x, f.callFunctype(x, fc, c.Value.Type(), args, pc, st))
		return
	}
	// dynamic call: case split over candidates
	cands := vc.eng.candidates(c.Value.Type())
	if len(cands) == 0 {
		vc.assum[fmt.Sprintf("dynamic call of user-supplied %s: assumed to write only through its pointer arguments", c.Value.Type())] = true
		f.setCall(x, f.callUnknown(x, "dynamic:"+c.Value.Type().String(), c.Signature(), args, pc, st))
		return
	}
	var alts []SV
	var conds []string
	var edges []Edge
	var known []string
	for _, cand := range cands {
		cond := fmt.Sprintf("(= %s %d)", fv.T, vc.fnID(cand))
		known = append(known, cond)
		cpc := vc.def("pc", "Bool", and(pc, cond))
		cst := st.clone()
		r := f.callStatic(x, cand, args, nil, cpc, cst)
		alts = append(alts, r)
		conds = append(conds, cpc)
		edges = append(edges, Edge{pc: cpc, st: cst})
	}
	// the function value is one of the candidates: an assumption about user-supplied values, recorded
	vc.assum[fmt.Sprintf("function values of type %s range over the address-taken functions of that type in the program (%d candidates)", c.Value.Type(), len(cands))] = true
	vc.assume(pc, or(known...))
	*st = *f.mergeStates(edges, x.Pos())
	f.setCall(x, f.mergeSV(x.Type(), alts, conds, "dyn"))
}

func (f *Frame) setCall(x *ssa.Call, r SV) {
	r.Typ = x.Type()
	if len(r.Tup) > 0 || r.T == "" {
		f.vals[x] = r
		return
	}
	f.set(x, r)
}

// callStatic handles a call whose target function is known.
func (f *Frame) callStatic(x *ssa.Call, fn *ssa.Function, args []SV, bindings []SV, pc string, st *State) SV {
	vc := f.vc
	name := fn.String()
	if sv, ok := vc.mathIntrinsic(name, args, x.Type()); ok {
		return sv
	}
	if sv, ok := vc.stdModel(name, args, x.Type(), pc, st, x.Pos()); ok {
		return sv
	}
	if vc.inInit > 0 && fn.Name() == "init" && len(fn.Params) == 0 {
		return SV{}
	}
	vc.atCall(f, funcRelName(fn), args, pc, st, x.Pos())
	con := vc.eng.contractFor(fn, vc.mode)
	if con != nil && !con.Inline {
		return f.applyContract(x.Pos(), fn, con, args, bindings, pc, st, x.Type())
	}
	if len(fn.Blocks) > 0 && vc.eng.inModule(fn) {
		if con != nil && con.Inline || fn.Synthetic != "" || vc.eng.autoInline(fn) {
			if f.depth >= maxInlineDepth {
				vc.unsupported(x.Pos(), "inline depth exceeded at %s", fn)
				return f.callUnknown(x, name, fn.Signature, args, pc, st)
			}
			return f.inline(x, fn, con, args, bindings, pc, st)
		}
		// in-repo function with neither contract nor inline mark
		if vc.dry == 0 {
			vc.addObl(&Obl{Name: vc.oblName("call", funcRelName(fn)+"/missing-contract"), Kind: "subset", PC: "true", Goal: "false",
				Pos: vc.eng.fset.Position(x.Pos()), Failed: "callee has neither a contract nor an inline mark"})
		}
		return f.callUnknown(x, name, fn.Signature, args, pc, st)
	}
	// external function
	if ec := vc.eng.contractFor(fn, vc.mode); ec != nil {
		return f.applyContract(x.Pos(), fn, ec, args, bindings, pc, st, x.Type())
	}
	vc.assum[fmt.Sprintf("external %s: result unconstrained, writes only through its pointer arguments", name)] = true
	return f.callUnknown(x, name, fn.Signature, args, pc, st)
}

// callUnknown havocs the results and the pointees of pointer arguments.
func (f *Frame) callUnknown(x *ssa.Call, name string, sig *types.Signature, args []SV, pc string, st *State) SV {
	for _, a := range args {
		if a.P != nil && a.P.obj != nil && a.T == "" {
			f.havocPtr(st, a.P, pc)
		}
	}
	return f.freshResults(sig.Results(), pc, st, "ret_"+sanitize(shortFn(name)))
}

func shortFn(name string) string {
	if i := strings.LastIndex(name, "/"); i >= 0 {
		name = name[i+1:]
	}
	return name
}

func (f *Frame) freshResults(res *types.Tuple, pc string, st *State, prefix string) SV {
	vc := f.vc
	switch res.Len() {
	case 0:
		return SV{Tup: nil}
	case 1:
		t := res.At(0).Type()
		sv := SV{T: vc.decl(prefix, vc.S.sortOf(t)), Typ: t}
		vc.assumeWF(pc, sv.T, t, st, 0)
		return sv
	}
	out := SV{}
	for i := 0; i < res.Len(); i++ {
		t := res.At(i).Type()
		sv := SV{T: vc.decl(fmt.Sprintf("%s_%d", prefix, i), vc.S.sortOf(t)), Typ: t}
		vc.assumeWF(pc, sv.T, t, st, 0)
		out.Tup = append(out.Tup, sv)
	}
	return out
}

// inline executes the callee's body in place.
func (f *Frame) inline(x *ssa.Call, fn *ssa.Function, con *Contract, args []SV, bindings []SV, pc string, st *State) SV {
	vc := f.vc
	fr := vc.newFrame(fn, f)
	fr.con = con
	for i, p := range fn.Params {
		if i < len(args) {
			fr.vals[p] = args[i]
			fr.params[p.Name()] = args[i]
		}
	}
	for i, fv := range fn.FreeVars {
		if i < len(bindings) {
			fr.vals[fv] = bindings[i]
			fr.params[fv.Name()] = bindings[i]
		}
	}
	fr.run(pc, st)
	if len(fr.rets) == 0 {
		// no return reachable (panics on every path): unreachable continuation
		vc.assume(pc, "false")
		return f.freshResults(fn.Signature.Results(), pc, st, "ret_"+sanitize(fn.Name()))
	}
	var edges []Edge
	var conds []string
	for _, r := range fr.rets {
		edges = append(edges, Edge{pc: r.pc, st: r.st})
		conds = append(conds, r.pc)
	}
	*st = *f.mergeStates(edges, x.Pos())
	n := fn.Signature.Results().Len()
	if n == 0 {
		return SV{}
	}
	var cols []SV
	for i := 0; i < n; i++ {
		var alts []SV
		for _, r := range fr.rets {
			alts = append(alts, r.vals[i])
		}
		cols = append(cols, f.mergeSV(fn.Signature.Results().At(i).Type(), alts, conds, "ret_"+sanitize(fn.Name())))
	}
	if n == 1 {
		return cols[0]
	}
	return SV{Tup: cols}
}

// atCall discharges "at call" assertions of the function under verification.
func (vc *VC) atCall(f *Frame, callee string, args []SV, pc string, st *State, pos token.Pos) {
	if vc.con == nil || len(vc.con.AtCalls) == 0 || vc.dry > 0 {
		return
	}
	matched := false
	for _, ac := range vc.con.AtCalls {
		if ac.Callee == callee || strings.HasSuffix(callee, "."+ac.Callee) || strings.HasSuffix(callee, ")."+ac.Callee) {
			matched = true
		}
	}
	if !matched {
		return
	}
	n := vc.callSeq[callee]
	vc.callSeq[callee] = n + 1
	for i, ac := range vc.con.AtCalls {
		if !(ac.Callee == callee || strings.HasSuffix(callee, "."+ac.Callee) || strings.HasSuffix(callee, ")."+ac.Callee)) {
			continue
		}
		if ac.N >= 0 && ac.N != n {
			continue
		}
		if ac.Clause.Tier == "thorough" && vc.eng.tier != "thorough" {
			continue
		}
		env := vc.top.env(st, vc.top.entrySt, nil)
		// param:NAME keeps naming the enclosing function's own parameter when the call's argN shadows it
		for k, v := range env.roots {
			if !strings.Contains(k, ":") {
				env.roots["param:"+k] = v
			}
		}
		for j, a := range args {
			env.roots[fmt.Sprintf("arg%d", j)] = a
		}
		t, err := env.eval(ac.Clause.Expr)
		name := vc.oblName("at-call", fmt.Sprintf("%s#%d/%d%s", callee, n, i, labelSuffix(ac.Clause.Labels)))
		if err != nil && strings.Contains(err.Error(), "not in scope here") {
			continue // the assertion mentions variables that do not exist (yet) at this call: it does not apply here
		}
		if err != nil {
			vc.failObl(name, ac.Clause, err)
			continue
		}
		vc.eng.acApplied[fmt.Sprintf("%s:%d", ac.Clause.File, ac.Clause.Line)] = true
		vc.addObl(&Obl{Name: name, Kind: "at-call", Labels: ac.Clause.Labels, Pos: vc.eng.fset.Position(pos), PC: pc, Goal: t, Clause: ac.Clause.Text, Tier: ac.Clause.Tier})
		// a checked assertion is known from here on
		if !ac.Clause.CheckOnly {
			vc.assume(pc, t)
		}
	}
}

// applyContract uses the callee's contract at a call site.
func (f *Frame) applyContract(pos token.Pos, fn *ssa.Function, con *Contract, args []SV, bindings []SV, pc string, st *State, rt types.Type) SV {
	vc := f.vc
	vc.calleesUsed[con.Key()] = true
	newUse := false
	for _, u := range con.Uses {
		if !vc.uses[u] {
			vc.uses[u] = true
			newUse = true
		}
	}
	if newUse {
		vc.forceSpecTypes()
	}
	if con.Trusted {
		vc.assum[fmt.Sprintf("trusted contract of %s", fn)] = true
	}
	roots := map[string]SV{}
	for i, p := range fn.Params {
		if i < len(args) {
			roots[p.Name()] = args[i]
		}
	}
	for i, fv := range fn.FreeVars {
		if i < len(bindings) {
			roots[fv.Name()] = bindings[i]
		}
	}
	// static aliasing check between pointer arguments
	var ptrs []*Ptr
	for _, a := range args {
		if a.P != nil {
			ptrs = append(ptrs, a.P)
		}
	}
	for i := range ptrs {
		for j := i + 1; j < len(ptrs); j++ {
			ki, kj := ptrs[i].key(), ptrs[j].key()
			if strings.HasPrefix(ki, kj) || strings.HasPrefix(kj, ki) {
				vc.unsupported(pos, "possibly aliasing pointer arguments in call to %s", fn)
			}
		}
	}
	old := st.clone()
	cname := funcRelName(fn)
	env := &Env{vc: vc, roots: roots, cur: st, old: old, con: con, frame: nil}
	var pres []string
	for i, r := range con.Requires {
		t, err := env.eval(r.Expr)
		if err != nil {
			vc.failObl(vc.oblName("call", fmt.Sprintf("%s/pre#%d", cname, i)), r, err)
			continue
		}
		pres = append(pres, t)
		if vc.dry == 0 {
			vc.callSeq["pre:"+cname]++
			vc.addObl(&Obl{Name: vc.oblName("call", fmt.Sprintf("%s@%d/pre#%d%s", cname, vc.callSeq["pre:"+cname], i, labelSuffix(r.Labels))), Kind: "requires-at-call", Labels: r.Labels,
				Pos: vc.eng.fset.Position(pos), PC: pc, Goal: t, Clause: r.Text})
		}
	}
	pre := vc.def("pre", "Bool", and(pres...))
	// havoc the write frame
	listsNextR := false
	for _, m := range con.Modifies {
		if m == "nextR" {
			listsNextR = true
		}
	}
	if listsNextR || vc.eng.effectsOf(fn).Allocs {
		// the callee may allocate (append, make, slice literals), whether or not its contract says so: the region
		// counter moves on, and it does so before the havocked objects get their well-formedness facts (their slices
		// may live in the new regions). (The frame check exempts nextR, so leaving it out of a modifies list is not an
		// error; without this step a caller would silently assume that the callee's appends never reallocate.)
		f.havocModifies(env, "nextR", pc, st, pos)
	}
	for _, m := range con.Modifies {
		if m != "nextR" {
			f.havocModifies(env, m, pc, st, pos)
		}
	}
	// results: an ensures clause of the shape (= result X) defines the result instead of constraining a fresh constant
	results := fn.Signature.Results()
	defs := map[int]string{}
	for _, e := range con.Ensures {
		if e.Internal || !e.Expr.IsL || len(e.Expr.List) != 3 || e.Expr.Head() != "=" || e.Expr.List[1].IsL {
			continue
		}
		idx := resultIndex(e.Expr.List[1].Atom, results)
		if idx < 0 || mentionsResult(e.Expr.List[2], results) {
			continue
		}
		if _, dup := defs[idx]; dup {
			continue
		}
		if t, err := env.eval(e.Expr.List[2]); err == nil {
			defs[idx] = t
		}
	}
	res := f.freshResults(fn.Signature.Results(), pc, st, "ret_"+sanitize(fn.Name()))
	for idx, t := range defs {
		rt1 := results.At(idx).Type()
		srt := vc.S.sortOf(rt1)
		term := t
		if pre != "true" {
			var fresh string
			if results.Len() == 1 {
				fresh = res.T
			} else {
				fresh = res.Tup[idx].T
			}
			term = fmt.Sprintf("(ite %s %s %s)", pre, t, fresh)
		}
		name := vc.fresh("ret_" + sanitize(fn.Name()))
		vc.emit("(define-fun %s () %s %s)", name, srt, term)
		if results.Len() == 1 {
			res.T = name
		} else {
			res.Tup[idx].T = name
		}
	}
	if results.Len() == 1 {
		roots["result"] = res
		roots["result.0"] = res
		if n := results.At(0).Name(); n != "" && n != "_" {
			if _, clash := roots[n]; !clash {
				roots[n] = res
			}
		}
	} else {
		for i := 0; i < results.Len(); i++ {
			roots[fmt.Sprintf("result.%d", i)] = res.Tup[i]
			if n := results.At(i).Name(); n != "" && n != "_" {
				if _, clash := roots[n]; !clash {
					roots[n] = res.Tup[i]
				}
			}
		}
	}
	for _, e := range con.Ensures {
		if e.Internal {
			continue
		}
		t, err := env.eval(e.Expr)
		if err != nil {
			vc.unsupported(pos, "cannot use ensures of %s: %v", fn, err)
			continue
		}
		vc.assume(pc, fmt.Sprintf("(=> %s %s)", pre, t))
	}
	return res
}

// havocModifies gives a fresh value to one entry of a modifies clause, in the caller's state.
func (f *Frame) havocModifies(env *Env, m string, pc string, st *State, pos token.Pos) {
	vc := f.vc
	switch {
	case m == "nextR":
		oldR := vc.nextR(st)
		n := vc.decl("nextR", "Int")
		vc.assume(pc, fmt.Sprintf("(>= %s %s)", n, oldR))
		st.ghost["nextR"] = n
		return
	case strings.HasPrefix(m, "mem."):
		for es, mn := range vc.S.memSorts {
			if mn == m {
				if _, ok := st.mem[mn]; !ok {
					vc.memTermByName(st, mn, es)
				}
				st.mem[mn] = vc.decl(sanitize(mn), vc.S.memSort(es))
				return
			}
		}
		// memory of a sort not yet seen in this VC: declare by well-known suffix
		if t := vc.eng.memElemByName(m); t != nil {
			vc.memTerm(st, t)
			st.mem[m] = vc.decl(sanitize(m), vc.S.memSort(vc.S.sortOf(t)))
			return
		}
		vc.unsupported(pos, "modifies: unknown memory %s", m)
		return
	case strings.HasPrefix(m, "tr."):
		vc.havocIface(st, strings.TrimPrefix(m, "tr."))
		return
	case strings.HasPrefix(m, "mon."):
		if srt, ok := vc.eng.monSorts[m]; ok && vc.monActive(m) {
			vc.ghostTerm(st, m, srt, "")
			st.ghost[m] = vc.decl(sanitize(m), srt)
		}
		return
	}
	p, err := env.resolvePtr(m)
	if err != nil {
		vc.unsupported(pos, "modifies %s: %v", m, err)
		return
	}
	f.havocPtr(st, p, pc)
}

func (vc *VC) memTermByName(st *State, mn, es string) string {
	if t, ok := st.mem[mn]; ok {
		return t
	}
	c := mn + "!0"
	if !vc.declaredMem[mn] {
		vc.declaredMem[mn] = true
		vc.prependDecl(fmt.Sprintf("(declare-const %s %s)", c, vc.S.memSort(es)))
	}
	if _, ok := vc.entry.mem[mn]; !ok {
		vc.entry.mem[mn] = c
	}
	st.mem[mn] = c
	return c
}

// mergeStates joins several states under their path conditions.
func (f *Frame) mergeStates(edges []Edge, pos token.Pos) *State {
	vc := f.vc
	if len(edges) == 1 {
		return edges[0].st.clone()
	}
	st := newState()
	objset := map[*Obj]bool{}
	for _, e := range edges {
		for o := range e.st.objs {
			objset[o] = true
		}
	}
	var objs []*Obj
	for o := range objset {
		objs = append(objs, o)
	}
	sort.Slice(objs, func(i, j int) bool { return objs[i].id < objs[j].id })
	for _, o := range objs {
		var alts []SV
		var conds []string
		for _, e := range edges {
			if v, ok := e.st.objs[o]; ok {
				alts = append(alts, v)
				conds = append(conds, e.pc)
			} else if ev, ok := vc.entry.objs[o]; ok {
				alts = append(alts, ev)
				conds = append(conds, e.pc)
			}
		}
		st.objs[o] = f.mergeSV(o.typ, alts, conds, sanitize(o.name))
	}
	mergeStr := func(get func(*State) map[string]string, sortOf func(string) string) map[string]string {
		out := map[string]string{}
		keys := map[string]bool{}
		for _, e := range edges {
			for k := range get(e.st) {
				keys[k] = true
			}
		}
		var ks []string
		for k := range keys {
			ks = append(ks, k)
		}
		sort.Strings(ks)
		for _, k := range ks {
			var alts, conds []string
			for _, e := range edges {
				v, ok := get(e.st)[k]
				if !ok {
					if ev, ok2 := get(vc.entry)[k]; ok2 {
						v = ev
					} else {
						continue
					}
				}
				alts = append(alts, v)
				conds = append(conds, e.pc)
			}
			if len(alts) == 0 {
				continue
			}
			t := alts[len(alts)-1]
			for i := len(alts) - 2; i >= 0; i-- {
				t = ite(conds[i], alts[i], t)
			}
			out[k] = vc.def(sanitize(k), sortOf(k), t)
		}
		return out
	}
	st.mem = mergeStr(func(s *State) map[string]string { return s.mem }, func(k string) string { return vc.memSortByName(k) })
	st.ghost = mergeStr(func(s *State) map[string]string { return s.ghost }, func(k string) string { return vc.ghostSort(k) })
	for _, e := range edges {
		for k, l := range e.st.links {
			if old, ok := st.links[k]; ok && old.rid != l.rid {
				vc.unsupported(pos, "array linked to different regions on joining paths")
			}
			st.links[k] = l
		}
	}
	return st
}

// resultIndex maps a result name (result, result.N, or a named result) to its index; -1 if none.
func resultIndex(atom string, results *types.Tuple) int {
	if atom == "result" && results.Len() == 1 {
		return 0
	}
	if strings.HasPrefix(atom, "result.") {
		var i int
		if _, err := fmt.Sscanf(atom, "result.%d", &i); err == nil && i < results.Len() && fmt.Sprintf("result.%d", i) == atom {
			return i
		}
		return -1
	}
	for i := 0; i < results.Len(); i++ {
		if n := results.At(i).Name(); n != "" && n != "_" && n == atom {
			return i
		}
	}
	return -1
}

func mentionsResult(s *Sexp, results *types.Tuple) bool {
	if !s.IsL {
		root, _ := splitPath(s.Atom)
		if root == "result" {
			return true
		}
		return resultIndex(root, results) >= 0
	}
	for _, c := range s.List {
		if mentionsResult(c, results) {
			return true
		}
	}
	return false
}

// callFunctype applies the contract of a named function type (a callback the code is handed).
func (f *Frame) callFunctype(x *ssa.Call, fc *Contract, t types.Type, args []SV, pc string, st *State) SV {
	vc := f.vc
	short := ifaceShort(t)
	sig := t.Underlying().(*types.Signature)
	vc.atCall(f, short, args, pc, st, x.Pos())
	if !fc.Pure {
		vc.declareIface(t)
		var parts []string
		for _, a := range args {
			tt := a.T
			if tt == "" {
				tt = vc.ptrTerm(a)
			}
			parts = append(parts, tt)
		}
		ev := fmt.Sprintf("(%s.call %s)", short, strings.Join(parts, " "))
		if len(parts) == 0 {
			ev = fmt.Sprintf("(%s.call true)", short)
		}
		trn := "tr." + short
		cur := vc.ghostTerm(st, trn, "Tr."+short, "")
		st.ghost[trn] = vc.def(sanitize(trn), "Tr."+short, fmt.Sprintf("(cons.%s %s %s)", short, ev, cur))
		// monitors on a callback type are stepped like monitors on an interface
		var names []string
		for name := range vc.eng.monSorts {
			names = append(names, name)
		}
		sort.Strings(names)
		for _, name := range names {
			if vc.eng.monIface[name] == short && vc.monActive(name) {
				srt := vc.eng.monSorts[name]
				mc := vc.ghostTerm(st, name, srt, "")
				st.ghost[name] = vc.def(sanitize(name), srt, fmt.Sprintf("(%s.step %s %s)", name, mc, ev))
			}
		}
	}
	for _, m := range fc.Modifies {
		if strings.HasPrefix(m, "*arg") {
			var k int
			fmt.Sscanf(m, "*arg%d", &k)
			if k < len(args) && args[k].P != nil {
				f.havocPtr(st, args[k].P, pc)
			}
			continue
		}
		env := &Env{vc: vc, roots: map[string]SV{}, cur: st, old: st, con: fc}
		f.havocModifies(env, m, pc, st, x.Pos())
	}
	vc.assum[fmt.Sprintf("contract of callback type %s (assumed of every function value of that type handed to the code)", short)] = true
	return f.freshResults(sig.Results(), pc, st, "ret_"+sanitize(short))
}

// inLoopBody reports whether the top frame is currently executing inside some loop (invariant-based or unrolled).
func (f *Frame) inLoopBody() bool {
	top := f.vc.top
	return top.curBlock != nil && top.blockInLoop(top.curBlock)
}

func (f *Frame) blockInLoop(b *ssa.BasicBlock) bool {
	for _, li := range f.loops {
		if li.blocks[b] {
			return true
		}
	}
	return false
}
