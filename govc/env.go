package main

import (
	"fmt"
	"go/types"
	"math/big"
	"regexp"
	"strconv"
	"strings"

	"golang.org/x/tools/go/ssa"
)

// Env evaluates contract terms into SMT terms.
type Env struct {
	headState *State
	vc    *VC
	roots map[string]SV
	cur   *State
	old   *State
	con   *Contract
	frame *Frame
	bound map[string]int
	inOld bool
	lets  map[string]string
}

// env builds the evaluation environment of a frame at a program point.
func (f *Frame) env(cur, old *State, extra map[string]SV) *Env {
	e := &Env{vc: f.vc, roots: map[string]SV{}, cur: cur, old: old, con: f.con, frame: f}
	for k, v := range f.params {
		e.roots[k] = v
	}
	for k, v := range extra {
		e.roots[k] = v
	}
	return e
}

func (e *Env) state() *State {
	if e.inOld {
		return e.old
	}
	return e.cur
}

var goIdentRe = regexp.MustCompile(`^[a-z][A-Za-z0-9_]*$`)

var numRe = regexp.MustCompile(`^-?[0-9]+(\.[0-9]+)?$`)

func (e *Env) eval(s *Sexp) (string, error) {
	t, _, err := e.evalT(s)
	return t, err
}

// evalT evaluates s; the Go type is returned when s denotes a Go location.
func (e *Env) evalT(s *Sexp) (string, types.Type, error) {
	if !s.IsL {
		return e.atom(s.Atom)
	}
	if len(s.List) == 0 {
		return "()", nil, nil
	}
	head := s.Head()
	vc := e.vc
	if head == "_" || head == "as" {
		return s.String(), nil, nil // indexed / qualified identifier: (_ is C), (_ extract i j), (_ BitVec n), ...
	}
	switch head {
	case "old":
		if len(s.List) != 2 {
			return "", nil, fmt.Errorf("(old X) takes one argument")
		}
		saved := e.inOld
		e.inOld = true
		t, ty, err := e.evalT(s.List[1])
		e.inOld = saved
		return t, ty, err
	case "len", "cap", "off", "rgn", "arr":
		if len(s.List) != 2 {
			return "", nil, fmt.Errorf("(%s X) takes one argument", head)
		}
		t, ty, err := e.evalT(s.List[1])
		if err != nil {
			return "", nil, err
		}
		if ty != nil {
			switch u := ty.Underlying().(type) {
			case *types.Array:
				if head == "len" || head == "cap" {
					return vc.S.idxLit(u.Len()), types.Typ[types.Int], nil
				}
			case *types.Basic:
				if isString(ty) && head == "len" {
					return fmt.Sprintf("(gostr.len %s)", t), types.Typ[types.Int], nil
				}
				if isString(ty) && head == "arr" {
					return fmt.Sprintf("(gostr.arr %s)", t), nil, nil
				}
			case *types.Slice:
				if head == "arr" {
					return fmt.Sprintf("(select %s (s.rgn %s))", vc.memTerm(e.state(), u.Elem()), t), nil, nil
				}
			}
		}
		if head == "arr" {
			return "", nil, fmt.Errorf("(arr X): X must be a slice or string location")
		}
		return fmt.Sprintf("(s.%s %s)", head, t), types.Typ[types.Int], nil
	case "at":
		if len(s.List) != 3 {
			return "", nil, fmt.Errorf("(at X i) takes two arguments")
		}
		t, ty, err := e.evalT(s.List[1])
		if err != nil {
			return "", nil, err
		}
		ix, _, err := e.evalT(s.List[2])
		if err != nil {
			return "", nil, err
		}
		if ty == nil {
			return "", nil, fmt.Errorf("(at X i): type of %s unknown", s.List[1])
		}
		switch u := ty.Underlying().(type) {
		case *types.Slice:
			return fmt.Sprintf("(select (select %s (s.rgn %s)) %s)", vc.memTerm(e.state(), u.Elem()), t, vc.idxAdd(fmt.Sprintf("(s.off %s)", t), ix)), u.Elem(), nil
		case *types.Array:
			return fmt.Sprintf("(select %s %s)", t, ix), u.Elem(), nil
		case *types.Basic:
			return fmt.Sprintf("(select (gostr.arr %s) %s)", t, ix), types.Typ[types.Uint8], nil
		}
		return "", nil, fmt.Errorf("(at X i): %s is not indexable", ty)
	case "appended":
		// (appended P n K): the slice location P grew by n (<= K) elements by Go append semantics:
		// same offset, in place when capacity allows else a fresh region, old elements kept, no other region written.
		if len(s.List) != 4 {
			return "", nil, fmt.Errorf("(appended P n K) takes three arguments")
		}
		saved := e.inOld
		e.inOld = false
		nw, ty, err := e.evalT(s.List[1])
		if err != nil {
			return "", nil, err
		}
		e.inOld = true
		od, _, err := e.evalT(s.List[1])
		e.inOld = saved
		if err != nil {
			return "", nil, err
		}
		n, _, err := e.evalT(s.List[2])
		if err != nil {
			return "", nil, err
		}
		K, err2 := strconv.Atoi(s.List[3].Atom)
		if err2 != nil || ty == nil {
			return "", nil, fmt.Errorf("(appended P n K): K must be a literal and P a slice location")
		}
		sl, ok := ty.Underlying().(*types.Slice)
		if !ok {
			return "", nil, fmt.Errorf("(appended P n K): %s is not a slice", ty)
		}
		m1 := vc.memTerm(e.cur, sl.Elem())
		m0 := vc.memTerm(e.old, sl.Elem())
		oldArr := fmt.Sprintf("(select %s (s.rgn %s))", m0, od)
		newArr := fmt.Sprintf("(select %s (s.rgn %s))", m1, nw)
		start := vc.idxAdd(fmt.Sprintf("(s.off %s)", od), fmt.Sprintf("(s.len %s)", od))
		contents := oldArr
		for j := 0; j < K; j++ {
			p := vc.idxAdd(start, vc.S.idxLit(int64(j)))
			var lt string
			if vc.mode == Math {
				lt = fmt.Sprintf("(< %d %s)", j, n)
			} else {
				lt = fmt.Sprintf("(bvult %s %s)", vc.S.idxLit(int64(j)), n)
			}
			contents = fmt.Sprintf("(store %s %s (ite %s (select %s %s) (select %s %s)))", contents, p, lt, newArr, p, oldArr, p)
		}
		newLen := vc.idxAdd(fmt.Sprintf("(s.len %s)", od), n)
		var nle, capOK string
		if vc.mode == Math {
			nle = fmt.Sprintf("(<= %s %d)", n, K)
			capOK = fmt.Sprintf("(<= (s.len %s) (s.cap %s))", nw, nw)
		} else {
			nle = fmt.Sprintf("(bvule %s %s)", n, vc.S.idxLit(int64(K)))
			capOK = fmt.Sprintf("(and (bvule (s.len %s) (s.cap %s)) (bvult (s.cap %s) #x0000800000000000))", nw, nw, nw)
		}
		return fmt.Sprintf("(and %s (= (s.len %s) %s) (= (s.off %s) (s.off %s)) (ite %s (and (= (s.rgn %s) (s.rgn %s)) (= (s.cap %s) (s.cap %s))) (and (<= %s (s.rgn %s)) (< (s.rgn %s) %s) %s)) (= %s (store %s (s.rgn %s) %s)))",
			nle, nw, newLen, nw, od, vc.idxLe(newLen, fmt.Sprintf("(s.cap %s)", od)), nw, od, nw, od,
			vc.nextR(e.old), nw, nw, vc.nextR(e.cur), capOK, m1, m0, nw, contents), nil, nil
	case "f32bits", "f64bits":
		// a bit pattern of the float value X (unique unless X is NaN): a constant b with to_fp(b) = X
		x, _, err := e.evalT(s.List[1])
		if err != nil {
			return "", nil, err
		}
		if vc.bitsMemo == nil {
			vc.bitsMemo = map[string]string{}
		}
		key := head + ":" + x
		if b, ok := vc.bitsMemo[key]; ok {
			return b, nil, nil
		}
		if vc.dry > 0 {
			return "dry!bits", nil, nil
		}
		var b string
		if head == "f32bits" {
			b = vc.decl("bits32", "(_ BitVec 32)")
			vc.emit("(assert (= ((_ to_fp 8 24) %s) %s))", b, x)
		} else {
			b = vc.decl("bits64", "(_ BitVec 64)")
			vc.emit("(assert (= ((_ to_fp 11 53) %s) %s))", b, x)
		}
		vc.bitsMemo[key] = b
		return b, nil, nil
	case "addrof", "ifaceptr":
		// (addrof PATH): the address of a Go location; (ifaceptr PATH): an interface value holding that pointer
		if len(s.List) != 2 || s.List[1].IsL {
			return "", nil, fmt.Errorf("(%s PATH) takes a Go location", head)
		}
		p, err := e.resolvePtr(s.List[1].Atom)
		if err != nil {
			return "", nil, err
		}
		id := vc.ptrTerm(SV{P: p})
		if head == "addrof" {
			return id, nil, nil
		}
		return fmt.Sprintf("(mk-Iface %d %s)", vc.tid(types.NewPointer(p.typ)), id), nil, nil
	case "head":
		// (head X): X as it was at the head of the current loop iteration (only in step clauses)
		if e.headState == nil || len(s.List) != 2 {
			return "", nil, fmt.Errorf("(head X) is only available in loop step clauses")
		}
		savedCur := e.cur
		e.cur = e.headState
		e.frame.useHeadVals = true
		t, ty, err := e.evalT(s.List[1])
		e.frame.useHeadVals = false
		e.cur = savedCur
		return t, ty, err
	case "strlit":
		// (strlit "text"): the Go string constant with that text (escapes \n \t handled)
		if len(s.List) != 2 || s.List[1].IsL || !strings.HasPrefix(s.List[1].Atom, "\"") {
			return "", nil, fmt.Errorf("(strlit \"...\") takes a quoted string")
		}
		txt, err := strconv.Unquote(s.List[1].Atom)
		if err != nil {
			return "", nil, err
		}
		return vc.strConst(txt), types.Typ[types.String], nil
	case "ifaceas":
		// (ifaceas TYPE expr): the interface value holding expr as a value of Go type TYPE
		if len(s.List) != 3 || s.List[1].IsL {
			return "", nil, fmt.Errorf("(ifaceas TYPE expr)")
		}
		var ty types.Type
		for _, b := range types.Typ {
			if b.Name() == s.List[1].Atom {
				ty = b
			}
		}
		if s.List[1].Atom == "byte" {
			ty = types.Typ[types.Uint8]
		}
		if ty == nil {
			ty = vc.eng.findType(e.pkgPath(), s.List[1].Atom)
		}
		if ty == nil {
			return "", nil, fmt.Errorf("(ifaceas %s ...): unknown type", s.List[1].Atom)
		}
		t, _, err := e.evalT(s.List[2])
		if err != nil {
			return "", nil, err
		}
		return vc.makeIface(SV{T: t, Typ: ty}, ty).T, nil, nil
	case "ifaceval":
		// (ifaceval TYPE expr): the value of Go type TYPE held by the interface value expr
		if len(s.List) != 3 || s.List[1].IsL {
			return "", nil, fmt.Errorf("(ifaceval TYPE expr)")
		}
		var ty types.Type
		for _, b := range types.Typ {
			if b.Name() == s.List[1].Atom {
				ty = b
			}
		}
		if ty == nil {
			ty = vc.eng.findType(e.pkgPath(), s.List[1].Atom)
		}
		if ty == nil {
			return "", nil, fmt.Errorf("(ifaceval %s ...): unknown type", s.List[1].Atom)
		}
		t, _, err := e.evalT(s.List[2])
		if err != nil {
			return "", nil, err
		}
		return vc.unboxTerm(t, ty), ty, nil
	case "fresh":
		t, _, err := e.evalT(s.List[1])
		if err != nil {
			return "", nil, err
		}
		return fmt.Sprintf("(and (<= %s %s) (< %s %s))", vc.nextR(e.old), t, t, vc.nextR(e.cur)), nil, nil
	case "fnid":
		name := s.List[1].Atom
		fn := vc.eng.findFunc(e.pkgPath(), name)
		if fn == nil {
			return "", nil, fmt.Errorf("(fnid %s): no such function", name)
		}
		return fmt.Sprintf("%d", vc.fnID(fn)), nil, nil
	case "errval":
		// (errval pkg.Var): the interface value made from a package-level error variable
		t, ty, err := e.evalT(s.List[1])
		if err != nil {
			return "", nil, err
		}
		if ty == nil {
			return "", nil, fmt.Errorf("(errval X): %s is not a Go location", s.List[1])
		}
		return vc.makeIface(SV{T: t, Typ: ty}, ty).T, nil, nil
	case "typeid":
		name := s.List[1].Atom
		t := vc.eng.findType(e.pkgPath(), name)
		if t == nil {
			return "", nil, fmt.Errorf("(typeid %s): no such type", name)
		}
		return fmt.Sprintf("%d", vc.tid(t)), nil, nil
	case "wrap64":
		// (wrap64 X): X reduced to Go's int range exactly as the generator spells integer arithmetic in the real-number
		// reading (identity in the bit-precise reading), so that a contract can name the very term the code computes
		if len(s.List) != 2 {
			return "", nil, fmt.Errorf("(wrap64 X)")
		}
		t, _, err := e.evalT(s.List[1])
		if err != nil {
			return "", nil, err
		}
		if vc.mode != Math {
			return t, types.Typ[types.Int], nil
		}
		return vc.wrap(t, 64, true), types.Typ[types.Int], nil
	case "goeq":
		a, ty, err := e.evalT(s.List[1])
		if err != nil {
			return "", nil, err
		}
		b, _, err := e.evalT(s.List[2])
		if err != nil {
			return "", nil, err
		}
		if ty == nil {
			return "", nil, fmt.Errorf("(goeq a b): type of first operand unknown")
		}
		return vc.goEq(ty, a, b), nil, nil
	case "u8", "u16", "u32", "u64", "i8", "i16", "i32", "i64", "int":
		if len(s.List) == 2 && !s.List[1].IsL {
			if v, ok := new(big.Int).SetString(s.List[1].Atom, 0); ok {
				bits := 64
				if head != "int" {
					bits, _ = strconv.Atoi(head[1:])
				}
				return vc.S.intLit(v, bits), nil, nil
			}
		}
	case "f32", "f64":
		if len(s.List) == 2 && !s.List[1].IsL {
			if v, err := strconv.ParseFloat(s.List[1].Atom, 64); err == nil {
				bits := 32
				if head == "f64" {
					bits = 64
				}
				return vc.fpLit(v, bits), nil, nil
			}
		}
	case "forall", "exists", "lambda":
		if len(s.List) != 3 || !s.List[1].IsL {
			return "", nil, fmt.Errorf("malformed %s", head)
		}
		if e.bound == nil {
			e.bound = map[string]int{}
		}
		var names []string
		for _, b := range s.List[1].List {
			if b.IsL && len(b.List) == 2 {
				names = append(names, b.List[0].Atom)
				e.bound[b.List[0].Atom]++
			}
		}
		body, _, err := e.evalT(s.List[2])
		for _, n := range names {
			e.bound[n]--
		}
		if err != nil {
			return "", nil, err
		}
		return fmt.Sprintf("(%s %s %s)", head, s.List[1].String(), body), nil, nil
	case "let":
		if len(s.List) != 3 || !s.List[1].IsL {
			return "", nil, fmt.Errorf("malformed let")
		}
		if e.bound == nil {
			e.bound = map[string]int{}
		}
		var binds []string
		var names []string
		for _, b := range s.List[1].List {
			if !b.IsL || len(b.List) != 2 {
				return "", nil, fmt.Errorf("malformed let binding")
			}
			v, _, err := e.evalT(b.List[1])
			if err != nil {
				return "", nil, err
			}
			binds = append(binds, fmt.Sprintf("(%s %s)", b.List[0].Atom, v))
			names = append(names, b.List[0].Atom)
		}
		for _, n := range names {
			e.bound[n]++
		}
		body, _, err := e.evalT(s.List[2])
		for _, n := range names {
			e.bound[n]--
		}
		if err != nil {
			return "", nil, err
		}
		return fmt.Sprintf("(let (%s) %s)", strings.Join(binds, " "), body), nil, nil
	}
	parts := make([]string, len(s.List))
	for i, c := range s.List {
		if i == 0 && !c.IsL {
			parts[i] = c.Atom
			continue
		}
		t, _, err := e.evalT(c)
		if err != nil {
			return "", nil, err
		}
		parts[i] = t
	}
	return "(" + strings.Join(parts, " ") + ")", nil, nil
}

func (e *Env) pkgPath() string {
	if e.con != nil {
		return e.con.Pkg
	}
	if e.vc.fn.Pkg != nil {
		return e.vc.fn.Pkg.Pkg.Path()
	}
	return ""
}

func (e *Env) atom(a string) (string, types.Type, error) {
	vc := e.vc
	if a == "" {
		return a, nil, nil
	}
	c := a[0]
	if c == '#' || c == '"' || c == '|' || c == ':' || numRe.MatchString(a) || a == "true" || a == "false" || a == "_" {
		return a, nil, nil
	}
	if e.bound != nil && e.bound[a] > 0 {
		return a, nil, nil
	}
	if e.con != nil {
		for _, l := range e.con.Lets {
			if l.Name == a {
				return e.evalT(l.Expr)
			}
		}
	}
	st := e.state()
	switch {
	case a == "nextR":
		return vc.nextR(st), nil, nil
	case strings.HasPrefix(a, "mem."):
		for es, mn := range vc.S.memSorts {
			if mn == a {
				return vc.memTermByName(st, mn, es), nil, nil
			}
		}
		if t := vc.eng.memElemByName(a); t != nil {
			return vc.memTerm(st, t), nil, nil
		}
		return "", nil, fmt.Errorf("unknown memory %s", a)
	case strings.HasPrefix(a, "tr."):
		short := strings.TrimPrefix(a, "tr.")
		srt := vc.ifaceTraceSort(short)
		if srt == "" {
			return "", nil, fmt.Errorf("unknown interface %s", short)
		}
		return vc.ghostTerm(st, a, srt, ""), nil, nil
	case strings.HasPrefix(a, "mon."):
		if srt, ok := vc.eng.monSorts[a]; ok {
			return vc.ghostTerm(st, a, srt, ""), nil, nil
		}
	}
	t, ty, ok, err := e.path(a)
	if err != nil {
		return "", nil, err
	}
	if ok {
		return t, ty, nil
	}
	if strings.HasPrefix(a, "phi:") || strings.HasPrefix(a, "after:") || strings.HasSuffix(strings.SplitN(a, ".", 2)[0], "@0") || (strings.Contains(a, ":") && !strings.HasPrefix(a, ":")) {
		return "", nil, fmt.Errorf("%s is not in scope here", a)
	}
	if goIdentRe.MatchString(a) || (strings.HasPrefix(a, "*") && len(a) > 1 && goIdentRe.MatchString(strings.SplitN(a[1:], ".", 2)[0])) {
		// looks like a Go variable but is none here: an error, not an SMT symbol
		return "", nil, fmt.Errorf("%s is not in scope here", a)
	}
	return a, nil, nil
}

// splitPath splits "root.f[g].h" into root and steps; a leading * is stripped (deref is implicit).
func splitPath(a string) (string, []string) {
	a = strings.TrimPrefix(a, "*")
	var steps []string
	i := 0
	for i < len(a) && a[i] != '.' && a[i] != '[' {
		i++
	}
	root := a[:i]
	for i < len(a) {
		if a[i] == '.' {
			j := i + 1
			for j < len(a) && a[j] != '.' && a[j] != '[' {
				j++
			}
			steps = append(steps, a[i:j])
			i = j
		} else { // '['
			d, j := 0, i
			for j < len(a) {
				if a[j] == '[' {
					d++
				} else if a[j] == ']' {
					d--
					if d == 0 {
						break
					}
				}
				j++
			}
			steps = append(steps, a[i:j+1])
			i = j + 1
		}
	}
	return root, steps
}

// lookupRoot finds the value bound to a root name.
func (e *Env) lookupRoot(name string) (SV, bool) {
	if strings.HasPrefix(name, "phi:") { // the loop-carried variable of that name, not the parameter
		if e.frame != nil {
			if sv, ok := e.frame.lookupEnclosingLoopPhi(strings.TrimPrefix(name, "phi:")); ok {
				return sv, true
			}
			if sv, ok := e.frame.lookupOnlyLoopPhi(strings.TrimPrefix(name, "phi:")); ok {
				return sv, true
			}
			if sv, ok := e.frame.lookupLocal(strings.TrimPrefix(name, "phi:")); ok {
				return sv, true
			}
		}
		return SV{}, false
	}
	if strings.HasPrefix(name, "after:") { // the variable as an earlier, finished loop left it
		if e.frame != nil {
			if sv, ok := e.frame.lookupFinishedLoopPhi(strings.TrimPrefix(name, "after:")); ok {
				return sv, true
			}
		}
		return SV{}, false
	}
	if strings.HasSuffix(name, "@0") { // entry value of a parameter, also inside loops that reassign it
		sv, ok := e.roots[strings.TrimSuffix(name, "@0")]
		return sv, ok
	}
	if e.frame != nil && e.frame.curHead != nil {
		// inside a loop annotation a loop-carried variable shadows the parameter of the same name
		if sv, ok := e.frame.lookupLoopPhi(name); ok {
			return sv, true
		}
	}
	if sv, ok := e.roots[name]; ok {
		return sv, true
	}
	if e.frame != nil {
		if sv, ok := e.frame.lookupLocal(name); ok {
			return sv, true
		}
	}
	return SV{}, false
}

// path resolves a Go access path. ok=false when the root is not a Go name (the atom is then an SMT symbol).
func (e *Env) path(a string) (string, types.Type, bool, error) {
	vc := e.vc
	root, steps := splitPath(a)
	if whole, ok0 := e.roots[strings.TrimPrefix(a, "*")]; ok0 && len(whole.Tup) == 0 {
		root, steps = strings.TrimPrefix(a, "*"), nil
	} else if len(steps) > 0 {
		if _, ok1 := e.roots[root+steps[0]]; ok1 {
			root, steps = root+steps[0], steps[1:]
		}
	}
	sv, ok := e.lookupRoot(root)
	if !ok {
		// global: pkg.Name or Name in the contract's package
		g, rest := vc.eng.findGlobal(e.pkgPath(), root, steps)
		if g == nil {
			return "", nil, false, nil
		}
		o := vc.globalObj(g)
		sv = SV{P: &Ptr{obj: o, typ: o.typ}, Typ: g.Type()}
		steps = rest
	}
	st := e.state()
	var term string
	var ty types.Type
	var ptr *Ptr
	if sv.P != nil && sv.T == "" {
		ptr = sv.P
		ty = ptr.typ
	} else if sv.P != nil {
		ptr = sv.P
		ty = ptr.typ
	} else {
		term = sv.T
		ty = sv.Typ
		if len(sv.Tup) > 0 {
			return "", nil, true, fmt.Errorf("%s is a tuple; use result.N", root)
		}
	}
	if strings.HasPrefix(a, "*") && ptr == nil {
		return "", nil, true, fmt.Errorf("%s: cannot dereference a non-pointer", a)
	}
	for _, s := range steps {
		if ptr != nil {
			// materialise lazily: keep extending the pointer
			switch u := ptr.typ.Underlying().(type) {
			case *types.Struct:
				if s[0] != '.' {
					return "", nil, true, fmt.Errorf("%s: indexing a struct", a)
				}
				fi := fieldIndex(u, s[1:])
				if fi < 0 {
					return "", nil, true, fmt.Errorf("%s: no field %s in %s", a, s[1:], ptr.typ)
				}
				ptr = ptr.extend(Step{Field: fi}, u.Field(fi).Type())
				continue
			case *types.Array:
				if s[0] != '[' {
					return "", nil, true, fmt.Errorf("%s: selecting a field of an array", a)
				}
				ix, err := e.indexTerm(s[1 : len(s)-1])
				if err != nil {
					return "", nil, true, err
				}
				ptr = ptr.extend(Step{Field: -1, Idx: ix}, u.Elem())
				continue
			}
			// not a struct/array: load and continue on the value
			v := vc.load(st, ptr)
			term, ty = v.T, ptr.typ
			ptr = nil
		}
		switch u := ty.Underlying().(type) {
		case *types.Struct:
			if s[0] != '.' {
				return "", nil, true, fmt.Errorf("%s: indexing a struct", a)
			}
			fi := fieldIndex(u, s[1:])
			if fi < 0 {
				return "", nil, true, fmt.Errorf("%s: no field %s in %s", a, s[1:], ty)
			}
			term, ty = vc.readPath(term, ty, []Step{{Field: fi}})
		case *types.Array:
			ix, err := e.indexTerm(s[1 : len(s)-1])
			if err != nil {
				return "", nil, true, err
			}
			term, ty = fmt.Sprintf("(select %s %s)", term, ix), u.Elem()
		case *types.Slice:
			if s[0] != '[' {
				return "", nil, true, fmt.Errorf("%s: selecting a field of a slice (use len/cap forms)", a)
			}
			ix, err := e.indexTerm(s[1 : len(s)-1])
			if err != nil {
				return "", nil, true, err
			}
			term = fmt.Sprintf("(select (select %s (s.rgn %s)) %s)", vc.memTerm(st, u.Elem()), term, vc.idxAdd(fmt.Sprintf("(s.off %s)", term), ix))
			ty = u.Elem()
		case *types.Basic:
			if isString(ty) && s[0] == '[' {
				ix, err := e.indexTerm(s[1 : len(s)-1])
				if err != nil {
					return "", nil, true, err
				}
				term, ty = fmt.Sprintf("(select (gostr.arr %s) %s)", term, ix), types.Typ[types.Uint8]
			} else {
				return "", nil, true, fmt.Errorf("%s: cannot step into %s", a, ty)
			}
		default:
			return "", nil, true, fmt.Errorf("%s: cannot step into %s", a, ty)
		}
	}
	if ptr != nil {
		v := vc.load(st, ptr)
		if v.T == "" {
			return vc.ptrTerm(v), ptr.typ, true, nil
		}
		return v.T, ptr.typ, true, nil
	}
	return term, ty, true, nil
}

func (e *Env) indexTerm(s string) (string, error) {
	s = strings.TrimSpace(s)
	if v, err := strconv.ParseInt(s, 0, 64); err == nil {
		return e.vc.S.idxLit(v), nil
	}
	sx, err := parseSexp(s)
	if err != nil {
		return "", err
	}
	t, ty, err := e.evalT(sx)
	if err != nil {
		return "", err
	}
	if ty != nil {
		if _, _, ok := isInt(ty); ok {
			return e.vc.toIdx(SV{T: t}, ty), nil
		}
	}
	return t, nil
}

func fieldIndex(u *types.Struct, name string) int {
	for i := 0; i < u.NumFields(); i++ {
		if u.Field(i).Name() == name {
			return i
		}
	}
	return -1
}

// resolvePtr resolves a modifies-clause path to a static pointer.
func (e *Env) resolvePtr(a string) (*Ptr, error) {
	root, steps := splitPath(a)
	sv, ok := e.lookupRoot(root)
	if !ok {
		g, rest := e.vc.eng.findGlobal(e.pkgPath(), root, steps)
		if g == nil {
			return nil, fmt.Errorf("unknown root %s", root)
		}
		o := e.vc.globalObj(g)
		sv = SV{P: &Ptr{obj: o, typ: o.typ}}
		steps = rest
	}
	if sv.P == nil {
		return nil, fmt.Errorf("%s is not a pointer", root)
	}
	ptr := sv.P
	for _, s := range steps {
		switch u := ptr.typ.Underlying().(type) {
		case *types.Struct:
			fi := fieldIndex(u, strings.TrimPrefix(s, "."))
			if fi < 0 {
				return nil, fmt.Errorf("no field %s", s)
			}
			ptr = ptr.extend(Step{Field: fi}, u.Field(fi).Type())
		case *types.Array:
			ix, err := e.indexTerm(s[1 : len(s)-1])
			if err != nil {
				return nil, err
			}
			ptr = ptr.extend(Step{Field: -1, Idx: ix}, u.Elem())
		default:
			return nil, fmt.Errorf("cannot step into %s", ptr.typ)
		}
	}
	return ptr, nil
}

// lookupLocal resolves a source-level local variable name at the current point:
// loop-carried variables through their phi comments, others through debug references.
func (f *Frame) lookupLocal(name string) (SV, bool) {
	// phis carrying that source name: prefer the current loop head's, then enclosing loops (innermost first),
	// then phis outside loops that dominate the current head.
	var best ssa.Value
	bestRank := -1
	for _, b := range f.fn.Blocks {
		for _, ins := range b.Instrs {
			phi, ok := ins.(*ssa.Phi)
			if !ok {
				break
			}
			if phi.Comment != name {
				continue
			}
			if _, has := f.vals[phi]; !has {
				continue
			}
			rank := 0
			if f.curHead != nil {
				switch {
				case b == f.curHead:
					rank = 1 << 20
				case f.loops[b] != nil && f.loops[b].blocks[f.curHead]:
					rank = 1<<19 - len(f.loops[b].blocks) // smaller enclosing loop = more inner
				case f.loops[b] != nil:
					rank = -1 // phi of an unrelated loop
				case b.Dominates(f.curHead):
					rank = 1 + b.Index
				default:
					rank = 0
				}
			} else if f.loops[b] != nil {
				rank = 1
			} else {
				// outside loops: the join that comes last (deepest in the dominator tree) holds the variable's final value
				rank = 2
				for d := b.Idom(); d != nil; d = d.Idom() {
					rank++
				}
			}
			if rank > bestRank {
				best, bestRank = phi, rank
			}
		}
	}
	if best != nil {
		if f.useHeadVals && f.headVals != nil {
			if hv, ok := f.headVals[best.(*ssa.Phi)]; ok {
				return hv, true
			}
		}
		return f.vals[best], true
	}
	if i := strings.Index(name, ":"); i > 0 {
		// name:type picks, among several source variables of that name, the one of the given Go type
		want := name[i+1:]
		base := name[:i]
		var found ssa.Value
		n := 0
		for _, b := range f.fn.Blocks {
			for _, ins := range b.Instrs {
				if d, ok := ins.(*ssa.DebugRef); ok && !d.IsAddr && d.Object() != nil && d.Object().Name() == base {
					if d.X.Type().String() == want || d.Object().Type().String() == want {
						if _, has := f.vals[d.X]; has && found != d.X {
							if _, isPhi := d.X.(*ssa.Phi); isPhi && found != nil {
								continue
							}
							found = d.X
							n++
						}
					}
				}
			}
		}
		if found != nil {
			return f.vals[found], true
		}
		return SV{}, false
	}
	if f.namedVals == nil {
		f.namedVals = map[string]ssa.Value{}
		amb := map[string]bool{}
		for _, b := range f.fn.Blocks {
			for _, ins := range b.Instrs {
				if d, ok := ins.(*ssa.DebugRef); ok {
					if d.IsAddr {
						if _, isAlloc := d.X.(*ssa.Alloc); !isAlloc {
							continue
						}
					}
					if id, ok := d.Expr.(interface{ String() string }); ok {
						_ = id
					}
					if obj := d.Object(); obj != nil {
						n := obj.Name()
						if prev, ok := f.namedVals[n]; ok && prev != d.X {
							if _, isPhi := d.X.(*ssa.Phi); !isPhi {
								if _, prevPhi := prev.(*ssa.Phi); !prevPhi {
									amb[n] = true
								}
							}
						} else {
							f.namedVals[n] = d.X
						}
					}
				}
			}
		}
		for n := range amb {
			delete(f.namedVals, n)
		}
		// a variable that lives in memory (address-taken or an array): its storage is the variable, whatever values
		// were also recorded for it; two different storages of one name (shadowing) stay ambiguous
		addr := map[string]ssa.Value{}
		addrAmb := map[string]bool{}
		for _, b := range f.fn.Blocks {
			for _, ins := range b.Instrs {
				if d, ok := ins.(*ssa.DebugRef); ok && d.IsAddr && d.Object() != nil {
					if al, isAlloc := d.X.(*ssa.Alloc); isAlloc {
						n := d.Object().Name()
						if prev, ok := addr[n]; ok && prev != al {
							addrAmb[n] = true
						}
						addr[n] = al
					}
				}
			}
		}
		for n, al := range addr {
			if addrAmb[n] {
				delete(f.namedVals, n)
			} else if amb[n] {
				f.namedVals[n] = al
			}
		}
	}
	if v, ok := f.namedVals[name]; ok {
		if sv, has := f.vals[v]; has {
			return sv, true
		}
		if _, isConst := v.(*ssa.Const); isConst {
			return f.val(v), true
		}
	}
	return SV{}, false
}

// lookupEnclosingLoopPhi: the phi named name at the head of the innermost loop that contains the block being executed
// (phi:NAME in at-call assertions and ensures: the value the loop-carried variable had at the head of this iteration).
func (f *Frame) lookupEnclosingLoopPhi(name string) (SV, bool) {
	cur := f.curBlock
	if f.curHead != nil {
		cur = f.curHead
	}
	if cur == nil {
		return SV{}, false
	}
	var best ssa.Value
	bestSize := 1 << 30
	for h, li := range f.loops {
		if h != cur && !li.blocks[cur] {
			continue
		}
		for _, ins := range h.Instrs {
			phi, ok := ins.(*ssa.Phi)
			if !ok {
				break
			}
			if phi.Comment == name {
				if _, has := f.vals[phi]; has && len(li.blocks) < bestSize {
					best, bestSize = phi, len(li.blocks)
				}
			}
		}
	}
	if best != nil {
		if f.useHeadVals && f.headVals != nil {
			if hv, ok := f.headVals[best.(*ssa.Phi)]; ok {
				return hv, true
			}
		}
		return f.vals[best], true
	}
	return SV{}, false
}

// lookupOnlyLoopPhi: outside every loop (postconditions), phi:NAME is the loop-carried variable NAME when exactly one
// loop of the function carries a variable of that name (its value at the head of the last iteration entered).
func (f *Frame) lookupOnlyLoopPhi(name string) (SV, bool) {
	var found ssa.Value
	n := 0
	for h := range f.loops {
		for _, ins := range h.Instrs {
			phi, ok := ins.(*ssa.Phi)
			if !ok {
				break
			}
			if phi.Comment == name {
				if _, has := f.vals[phi]; has {
					found = phi
					n++
				}
			}
		}
	}
	if n == 1 {
		return f.vals[found], true
	}
	return SV{}, false
}

// lookupFinishedLoopPhi resolves after:NAME inside the annotation of a loop that does not itself carry NAME: the phi
// named NAME of the latest earlier loop whose head dominates the current loop head and that is left towards the
// current head either from its head block or from a block that precedes the variable's update in the iteration (so
// the head phi is the value the variable has when the loop is left).
func (f *Frame) lookupFinishedLoopPhi(name string) (SV, bool) {
	if f.curHead == nil {
		return SV{}, false
	}
	var best *ssa.Phi
	for h, li := range f.loops {
		if h == f.curHead || li.blocks[f.curHead] || !h.Dominates(f.curHead) {
			continue
		}
		// blocks other than the head from which the loop can be left towards the current loop
		var exits []*ssa.BasicBlock
		for b := range li.blocks {
			if b == h {
				continue
			}
			for _, s := range b.Succs {
				if !li.blocks[s] && s != h && blockReaches(s, f.curHead) {
					exits = append(exits, b)
				}
			}
		}
		for _, ins := range h.Instrs {
			phi, ok := ins.(*ssa.Phi)
			if !ok {
				break
			}
			if phi.Comment != name {
				continue
			}
			// leaving from such a block is fine when the variable's next value is only computed later in the
			// iteration (the exiting block strictly dominates the block that defines every back-edge operand)
			okExit := true
			for pi, pred := range h.Preds {
				if !li.blocks[pred] {
					continue
				}
				op := phi.Edges[pi]
				if op == ssa.Value(phi) {
					continue
				}
				def, isIns := op.(ssa.Instruction)
				for _, b := range exits {
					if !isIns || def.Block() == b || !b.Dominates(def.Block()) {
						okExit = false
					}
				}
			}
			if !okExit {
				continue
			}
			if _, has := f.vals[phi]; has && (best == nil || h.Index > best.Block().Index) {
				best = phi
			}
		}
	}
	if best == nil {
		return SV{}, false
	}
	return f.vals[best], true
}

func blockReaches(from, to *ssa.BasicBlock) bool {
	seen := map[*ssa.BasicBlock]bool{}
	var dfs func(b *ssa.BasicBlock) bool
	dfs = func(b *ssa.BasicBlock) bool {
		if b == to {
			return true
		}
		if seen[b] {
			return false
		}
		seen[b] = true
		for _, s := range b.Succs {
			if dfs(s) {
				return true
			}
		}
		return false
	}
	return dfs(from)
}

// lookupLoopPhi finds a phi named name in the current loop head or an enclosing loop head.
func (f *Frame) lookupLoopPhi(name string) (SV, bool) {
	var best ssa.Value
	bestSize := 1 << 30
	for h, li := range f.loops {
		if h != f.curHead && !li.blocks[f.curHead] {
			continue
		}
		for _, ins := range h.Instrs {
			phi, ok := ins.(*ssa.Phi)
			if !ok {
				break
			}
			if phi.Comment == name {
				if _, has := f.vals[phi]; has && len(li.blocks) < bestSize {
					best, bestSize = phi, len(li.blocks)
				}
			}
		}
	}
	if best != nil {
		if f.useHeadVals && f.headVals != nil {
			if hv, ok := f.headVals[best.(*ssa.Phi)]; ok {
				return hv, true
			}
		}
		return f.vals[best], true
	}
	return SV{}, false
}
