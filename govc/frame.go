package main

import (
	"fmt"
	"go/token"
	"go/types"
	"sort"
	"strings"

	"golang.org/x/tools/go/ssa"
)

// Edge is the symbolic state flowing along one CFG edge.
type Edge struct {
	from *ssa.BasicBlock
	pc   string
	st   *State
	esc  map[ssa.Value]SV // values of an unrolled loop that are used after it, as of this exit
}

// Ret is one return point of a function execution.
type Ret struct {
	pc   string
	vals []SV
	st   *State
}

// Frame is one activation (top-level function or inlined callee).
type Frame struct {
	vc      *VC
	fn      *ssa.Function
	prefix  string
	vals    map[ssa.Value]SV
	in      map[*ssa.BasicBlock][]Edge
	rets    []Ret
	parent  *Frame
	isTop   bool
	loops   map[*ssa.BasicBlock]*loopInfo
	loopOrd map[*ssa.BasicBlock]int
	con     *Contract // contract whose loop specs apply (top frame or contract-less inline)
	entrySt *State
	namedVals map[string]ssa.Value
	params  map[string]SV
	depth   int
	curHead *ssa.BasicBlock
	curBlock *ssa.BasicBlock
	unrolling *loopInfo
	unwinding *loopInfo
	unwindBound int
	backEdges []Edge
	loopEsc []escLoop
	headVals map[*ssa.Phi]SV
	useHeadVals bool
}

type loopInfo struct {
	head    *ssa.BasicBlock
	blocks  map[*ssa.BasicBlock]bool
	back    []*ssa.BasicBlock // sources of back edges
	ordinal int
	// recorded at head for the back-edge check
	headPC  string
	autoSpec *LoopSpec
	headState *State
	decEntry string
}

func (vc *VC) newFrame(fn *ssa.Function, parent *Frame) *Frame {
	f := &Frame{vc: vc, fn: fn, vals: map[ssa.Value]SV{}, in: map[*ssa.BasicBlock][]Edge{}, parent: parent, params: map[string]SV{}}
	if parent != nil {
		f.depth = parent.depth + 1
	}
	vc.n++
	f.prefix = fmt.Sprintf("f%d", vc.n)
	f.findLoops()
	return f
}

// rpo returns the blocks in reverse post-order of the forward CFG (back edges ignored).
func (f *Frame) rpo() []*ssa.BasicBlock {
	seen := map[*ssa.BasicBlock]bool{}
	var order []*ssa.BasicBlock
	var dfs func(b *ssa.BasicBlock)
	dfs = func(b *ssa.BasicBlock) {
		seen[b] = true
		for _, s := range b.Succs {
			if !seen[s] {
				dfs(s)
			}
		}
		order = append(order, b)
	}
	if len(f.fn.Blocks) > 0 {
		dfs(f.fn.Blocks[0])
	}
	for i, j := 0, len(order)-1; i < j; i, j = i+1, j-1 {
		order[i], order[j] = order[j], order[i]
	}
	return order
}

func (f *Frame) findLoops() {
	f.loops = map[*ssa.BasicBlock]*loopInfo{}
	f.loopOrd = map[*ssa.BasicBlock]int{}
	if len(f.fn.Blocks) == 0 {
		return
	}
	for _, b := range f.fn.Blocks {
		for _, s := range b.Succs {
			if s.Dominates(b) { // back edge b -> s
				li := f.loops[s]
				if li == nil {
					li = &loopInfo{head: s, blocks: map[*ssa.BasicBlock]bool{s: true}}
					f.loops[s] = li
				}
				li.back = append(li.back, b)
				// natural loop: blocks reaching b without passing through s
				var stack []*ssa.BasicBlock
				if !li.blocks[b] {
					li.blocks[b] = true
					stack = append(stack, b)
				}
				for len(stack) > 0 {
					x := stack[len(stack)-1]
					stack = stack[:len(stack)-1]
					for _, p := range x.Preds {
						if !li.blocks[p] {
							li.blocks[p] = true
							stack = append(stack, p)
						}
					}
				}
			}
		}
	}
	// ordinals by block index (source order)
	var heads []*ssa.BasicBlock
	for h := range f.loops {
		heads = append(heads, h)
	}
	sort.Slice(heads, func(i, j int) bool { return heads[i].Index < heads[j].Index })
	for i, h := range heads {
		f.loops[h].ordinal = i
		f.loopOrd[h] = i
	}
}

func (f *Frame) isBackEdge(from, to *ssa.BasicBlock) bool {
	return to.Dominates(from) && f.loops[to] != nil
}

// run executes the function body from the given entry state.
func (f *Frame) run(pc string, st *State) {
	vc := f.vc
	if len(f.fn.Blocks) == 0 {
		vc.unsupported(f.fn.Pos(), "function %s has no body", f.fn)
		return
	}
	f.entrySt = st
	f.in[f.fn.Blocks[0]] = []Edge{{pc: pc, st: st}}
	order := f.rpo()
	done := map[*ssa.BasicBlock]bool{}
	for _, b := range order {
		if done[b] {
			continue
		}
		edges := f.in[b]
		if len(edges) == 0 {
			continue
		}
		if li := f.loops[b]; li != nil {
			if u := f.unrollBound(li); u > 0 {
				f.unrollLoop(li, order, u)
				for lb := range li.blocks {
					done[lb] = true
				}
				continue
			}
		}
		bpc, bst := f.merge(b, edges)
		if bpc == "false" {
			continue
		}
		if li := f.loops[b]; li != nil {
			bpc, bst = f.loopHead(li, b, edges, bpc, bst)
		}
		f.execBlock(b, bpc, bst)
	}
}

// unrollBound returns the unrolling bound given for the loop (0: use invariants).
func (f *Frame) unrollBound(li *loopInfo) int {
	if f.con == nil {
		return 0
	}
	return f.con.Unroll[li.ordinal]
}

// unrollLoop executes the loop body up to bound times in place; afterwards the loop must have exited
// (unwinding obligation), so this is complete, not a bounded approximation.
func (f *Frame) unrollLoop(li *loopInfo, order []*ssa.BasicBlock, bound int) {
	vc := f.vc
	h := li.head
	// values defined in the loop and used after it: carried on the exit edges
	var escaping []ssa.Value
	for _, b := range order {
		if !li.blocks[b] {
			continue
		}
		for _, ins := range b.Instrs {
			v, ok := ins.(ssa.Value)
			if !ok || v.Referrers() == nil {
				continue
			}
			for _, r := range *v.Referrers() {
				if r.Block() != nil && !li.blocks[r.Block()] {
					escaping = append(escaping, v)
					break
				}
			}
		}
	}
	f.loopEsc = append(f.loopEsc, escLoop{li: li, vals: escaping})
	edges := f.in[h]
	for iter := 0; ; iter++ {
		if len(edges) == 0 {
			break
		}
		f.in[h] = edges
		bpc, bst := f.merge(h, edges)
		if bpc == "false" {
			break
		}
		// checkpoints: the loop's invariant clauses are checked at the head of every unrolled iteration and known afterwards
		if f.con != nil {
			if spec := f.con.Loops[li.ordinal]; spec != nil {
				f.curHead = h
				for i, inv := range spec.Invariants {
					if inv.Tier == "thorough" && vc.eng.tier != "thorough" {
						continue
					}
					env := f.env(bst, f.entrySt, nil)
					t, err := env.eval(inv.Expr)
					name := vc.oblName(fmt.Sprintf("inv%d", li.ordinal), fmt.Sprintf("checkpoint#%d%s@iter%d.%s", i, labelSuffix(inv.Labels), iter, f.prefix))
					if err != nil {
						vc.failObl(name, inv, err)
						continue
					}
					vc.addObl(&Obl{Name: name, Kind: "inv-entry", Labels: inv.Labels, Pos: vc.eng.fset.Position(h.Instrs[len(h.Instrs)-1].Pos()), PC: bpc, Goal: t, Clause: inv.Text, Tier: inv.Tier})
					vc.assume(bpc, t)
				}
				f.curHead = nil
			}
		}
		if iter == bound {
			// evaluate the loop condition once more: only exits may be taken (unwinding assertion in flow)
			f.unrolling = li
			f.unwinding = li
			f.unwindBound = bound
			f.execBlock(h, bpc, bst)
			f.unwinding = nil
			f.unrolling = nil
			break
		}
		f.backEdges = nil
		f.unrolling = li
		first := true
		for _, b := range order {
			if !li.blocks[b] {
				continue
			}
			if b == h {
				if !first {
					continue
				}
				first = false
				f.execBlock(h, bpc, bst)
				continue
			}
			if inner := f.loops[b]; inner != nil && inner != li {
				// nested loop inside an unrolled loop: handled by its own annotations
				ie := f.in[b]
				if len(ie) == 0 {
					continue
				}
				ipc, ist := f.merge(b, ie)
				if ipc == "false" {
					continue
				}
				ipc, ist = f.loopHead(inner, b, ie, ipc, ist)
				f.execBlock(b, ipc, ist)
				continue
			}
			ie := f.in[b]
			if len(ie) == 0 {
				continue
			}
			ipc, ist := f.merge(b, ie)
			if ipc == "false" {
				continue
			}
			f.execBlock(b, ipc, ist)
		}
		f.unrolling = nil
		// next iteration: the back edges; loop-internal inboxes are cleared
		for b := range li.blocks {
			delete(f.in, b)
		}
		edges = f.backEdges
		f.backEdges = nil
	}
	delete(f.in, h)
}

type escLoop struct {
	li   *loopInfo
	vals []ssa.Value
}

// merge joins the incoming edges of block b; it also defines b's phi values.
func (f *Frame) merge(b *ssa.BasicBlock, edges []Edge) (string, *State) {
	vc := f.vc
	var pcs []string
	for _, e := range edges {
		pcs = append(pcs, e.pc)
	}
	pc := vc.def("pc", "Bool", or(pcs...))
	// phis
	for _, ins := range b.Instrs {
		phi, ok := ins.(*ssa.Phi)
		if !ok {
			break
		}
		var alts []SV
		var conds []string
		for _, e := range edges {
			for i, p := range b.Preds {
				if p == e.from {
					alts = append(alts, f.val(phi.Edges[i]))
					conds = append(conds, e.pc)
					break
				}
			}
		}
		f.vals[phi] = f.mergeSV(phi.Type(), alts, conds, "phi_"+sanitize(phi.Comment))
	}
	// values escaping from unrolled loops: one definition per exit edge, joined here
	escKeys := map[ssa.Value]bool{}
	for _, e := range edges {
		for v := range e.esc {
			escKeys[v] = true
		}
	}
	for v := range escKeys {
		var alts []SV
		var conds []string
		for _, e := range edges {
			if sv, ok := e.esc[v]; ok {
				alts = append(alts, sv)
				conds = append(conds, e.pc)
			}
		}
		if len(alts) > 0 {
			f.vals[v] = f.mergeSV(v.Type(), alts, conds, "esc_"+sanitize(v.Name()))
		}
	}
	pos := token.NoPos
	if len(b.Instrs) > 0 {
		pos = b.Instrs[0].Pos()
	}
	return pc, f.mergeStates(edges, pos)
}

func (vc *VC) memSortByName(name string) string {
	for es, n := range vc.S.memSorts {
		if n == name {
			return vc.S.memSort(es)
		}
	}
	return "?mem"
}

func (vc *VC) ghostSort(name string) string {
	if name == "nextR" {
		return "Int"
	}
	if strings.HasPrefix(name, "tr.") {
		return "Tr." + strings.TrimPrefix(name, "tr.")
	}
	if s, ok := vc.eng.monSorts[name]; ok {
		return s
	}
	return "Int"
}

func samePtr(a, b *Ptr) bool {
	if a == nil || b == nil {
		return a == b
	}
	return a.key() == b.key()
}

// mergeSV builds ite(cond0, alt0, ite(cond1, alt1, ... altN)).
func (f *Frame) mergeSV(t types.Type, alts []SV, conds []string, name string) SV {
	vc := f.vc
	if len(alts) == 0 {
		return SV{Typ: t}
	}
	allSame := len(alts[0].Tup) == 0
	for _, a := range alts[1:] {
		if a.T != alts[0].T || !samePtr(a.P, alts[0].P) || (a.F == nil) != (alts[0].F == nil) || (a.F != nil && a.F.fn != alts[0].F.fn) {
			allSame = false
		}
	}
	if allSame {
		r := alts[0]
		for _, a := range alts[1:] {
			if a.SLen != r.SLen {
				r.SLen = 0
			}
			if !samePtr(a.Lnk, r.Lnk) {
				r.Lnk = nil
			}
		}
		return r
	}
	if len(alts[0].Tup) > 0 {
		r := SV{Typ: t}
		for i := range alts[0].Tup {
			var sub []SV
			for _, a := range alts {
				sub = append(sub, a.Tup[i])
			}
			r.Tup = append(r.Tup, f.mergeSV(alts[0].Tup[i].Typ, sub, conds, name))
		}
		return r
	}
	// need first-class terms
	terms := make([]string, len(alts))
	for i, a := range alts {
		terms[i] = a.T
		if terms[i] == "" {
			terms[i] = vc.ptrTerm(a)
		}
	}
	term := terms[len(terms)-1]
	for i := len(terms) - 2; i >= 0; i-- {
		term = ite(conds[i], terms[i], term)
	}
	r := SV{T: vc.def(name, vc.S.sortOf(t), term), Typ: t}
	// function values: keep candidate set via term only. Pointers: lose static info.
	lnk := alts[0].Lnk
	for _, a := range alts[1:] {
		if !samePtr(a.Lnk, lnk) {
			lnk = nil
		}
	}
	r.Lnk = lnk
	if _, ok := t.Underlying().(*types.Pointer); ok {
		r.P = nil
	}
	return r
}

// val returns the symbolic value of an SSA value in this frame.
func (f *Frame) val(v ssa.Value) SV {
	if sv, ok := f.vals[v]; ok {
		return sv
	}
	vc := f.vc
	switch x := v.(type) {
	case *ssa.Const:
		return vc.constSV(x)
	case *ssa.Global:
		o := vc.globalObj(x)
		return SV{P: &Ptr{obj: o, typ: o.typ}, Typ: x.Type()}
	case *ssa.Function:
		return SV{F: &FnVal{fn: x}, T: fmt.Sprintf("%d", vc.fnID(x)), Typ: x.Type()}
	case *ssa.Builtin:
		return SV{Typ: x.Type()}
	}
	vc.unsupported(v.Pos(), "value %s (%T) used before definition", v.Name(), v)
	sv := SV{T: vc.decl("undef", vc.S.sortOf(v.Type())), Typ: v.Type()}
	f.vals[v] = sv
	return sv
}

func (vc *VC) globalObj(g *ssa.Global) *Obj {
	if o, ok := vc.globals[g]; ok {
		return o
	}
	t := g.Type().(*types.Pointer).Elem()
	o := vc.newObj(g.Pkg.Pkg.Name()+"."+g.Name(), t, "global")
	vc.globals[g] = o
	// initial value: from init evaluation when available (sets vc.entry.objs[o])
	vc.eng.globalInit(vc, g)
	return o
}
