package main

import (
	"fmt"
	"go/token"
	"go/types"
	"sort"
	"strings"

	"golang.org/x/tools/go/ssa"
)

// Obj is a memory root: an Alloc, the pointee of a pointer parameter / free variable, or a global.
type Obj struct {
	name string
	typ  types.Type // type of the value held
	kind string     // alloc, param, global, freevar
	id   int
}

// Step is one element of an access path.
type Step struct {
	Field int    // >=0: struct field index
	Idx   string // Field<0: SMT index term
}

// Ptr is a statically resolved pointer.
type Ptr struct {
	obj *Obj
	// slice-element pointers: obj == nil, sl is the slice term, idx the element index, elemT the element type.
	sl    string
	idx   string
	elemT types.Type
	path  []Step
	typ   types.Type // pointee type
}

func (p *Ptr) key() string {
	var b strings.Builder
	if p.obj != nil {
		fmt.Fprintf(&b, "o%d", p.obj.id)
	} else {
		fmt.Fprintf(&b, "s[%s|%s]", p.sl, p.idx)
	}
	for _, s := range p.path {
		if s.Field >= 0 {
			fmt.Fprintf(&b, ".%d", s.Field)
		} else {
			fmt.Fprintf(&b, "[%s]", s.Idx)
		}
	}
	return b.String()
}

func (p *Ptr) extend(s Step, t types.Type) *Ptr {
	np := *p
	np.path = append(append([]Step{}, p.path...), s)
	np.typ = t
	return &np
}

// FnVal is a statically known function value (possibly a closure).
type FnVal struct {
	fn       *ssa.Function
	bindings []SV
}

// SV is a symbolic value.
type SV struct {
	T    string // SMT term, "" if only static info is available
	P    *Ptr   // static pointer target
	F    *FnVal // static function value
	Tup  []SV
	Typ  types.Type
	SLen int  // static slice length + 1 (0 = unknown)
	Lnk  *Ptr // slice carved from this addressable array (its region is linked)
}

// Link ties an addressable array (inside an object) to the region that holds its contents while slices of it live.
type Link struct {
	ptr  *Ptr
	rid  string
	elem types.Type
	heap bool // backing array of a slice literal / make: a fresh allocation that outlives the activation (never restored)
}

// State is the symbolic memory at a program point.
type State struct {
	objs  map[*Obj]SV
	mem   map[string]string // mem variable name -> term
	ghost map[string]string // nextR, tr.<T>, mon.<T>
	links map[string]*Link  // by array ptr key
}

func newState() *State {
	return &State{objs: map[*Obj]SV{}, mem: map[string]string{}, ghost: map[string]string{}, links: map[string]*Link{}}
}

func (s *State) clone() *State {
	n := newState()
	for k, v := range s.objs {
		n.objs[k] = v
	}
	for k, v := range s.mem {
		n.mem[k] = v
	}
	for k, v := range s.ghost {
		n.ghost[k] = v
	}
	for k, v := range s.links {
		n.links[k] = v
	}
	return n
}

// Obl is one proof obligation.
type Obl struct {
	Name    string
	Labels  []string
	Kind    string // ensures, requires-at-call, safe, inv-entry, inv-preserved, decreases, frame, lemma, vacuity, subset
	Func    string
	Pos     token.Position
	Prefix  int // number of context lines
	PC      string
	Goal    string
	Clause  string
	Mode    Mode
	vc      *VC
	Sliced  bool   // emit only the assumptions that mention a symbol in the goal's cone of definitions
	Failed  string // non-empty: generation failed (unsupported construct); never discharged
	Tier    string
	Timeout int
	ExpectSat bool // vacuity/cover check: expected sat
	Isolated bool // proved from the earlier clauses of the contract only (context assumptions dropped)
	Raw     string // lemma: raw SMT body (asserts incl. the negated goal)
	// filled by solver
	Result  string
	Solver  string
	Seconds float64
	Model   string
	SMTFile string
	Output  string
}

// VC is the verification context of one function under one contract.
type VC struct {
	pruned map[string]string // prelude text -> pruned prelude (guarded by pruneMu)
	needed map[string]bool // symbols mentioned by this VC's context and obligations (computed once, for prelude pruning)
	eng   *Engine
	fn    *ssa.Function
	con   *Contract
	mode  Mode
	S     *Sorts
	lines []string
	obls  []*Obl
	n     int
	objN  int
	uses  map[string]bool
	assum map[string]bool
	unsup []string
	globals map[*ssa.Global]*Obj
	ptrIDs  map[string]int
	strIDs  map[string]int
	fnIDs   map[*ssa.Function]int
	callSeq map[string]int
	safeSeq map[string]int
	depth   int
	top     *Frame
	entry   *State
	dry     int
	declaredMem map[string]bool
	declaredGhost map[string]bool
	ifaceTypes map[string]*types.Named
	r0 string
	tidIDs map[string]int
	calleesUsed map[string]bool
	propFilter string
	initVals map[*ssa.Global]string
	initDone map[*ssa.Package]bool
	inInit int
	initRegions int
	bitsMemo map[string]string
	final []finalRoot
	decls []string // self-contained declarations, emitted before every context line
}

func (vc *VC) fresh(prefix string) string {
	vc.n++
	return fmt.Sprintf("%s!%d", prefix, vc.n)
}

func (vc *VC) emit(format string, a ...interface{}) {
	if vc.dry > 0 {
		return
	}
	vc.lines = append(vc.lines, fmt.Sprintf(format, a...))
}

// decl declares a fresh constant of the given sort.
func (vc *VC) decl(prefix, sort string) string {
	n := vc.fresh(prefix)
	vc.emit("(declare-const %s %s)", n, sort)
	return n
}

// def names a term (returns the term itself when atomic).
func (vc *VC) def(prefix, sort, term string) string {
	if !strings.ContainsAny(term, " (") || len(term) < 24 {
		return term
	}
	n := vc.fresh(prefix)
	vc.emit("(define-fun %s () %s %s)", n, sort, term)
	return n
}

func (vc *VC) assume(pc, fact string) {
	if fact == "true" {
		return
	}
	if pc == "true" {
		vc.emit("(assert %s)", fact)
	} else {
		vc.emit("(assert (=> %s %s))", pc, fact)
	}
}

func (vc *VC) unsupported(pos token.Pos, format string, a ...interface{}) {
	msg := fmt.Sprintf(format, a...)
	if vc.dry > 0 || vc.inInit > 0 {
		return
	}
	p := vc.eng.fset.Position(pos)
	full := fmt.Sprintf("%s: %s", p, msg)
	for _, u := range vc.unsup {
		if u == full {
			return
		}
	}
	vc.unsup = append(vc.unsup, full)
}

func (vc *VC) addObl(o *Obl) {
	if vc.dry > 0 || vc.inInit > 0 {
		return
	}
	o.Prefix = len(vc.lines)
	o.Mode = vc.mode
	o.vc = vc
	o.Func = vc.fn.String()
	vc.obls = append(vc.obls, o)
}

func (vc *VC) oblName(kind, detail string) string {
	base := funcRelName(vc.fn)
	if vc.con != nil && vc.con.CaseTag != "" {
		detail += vc.con.CaseTag
	}
	pkg := ""
	if vc.fn.Pkg != nil {
		pkg = vc.fn.Pkg.Pkg.Name() + "."
	}
	return pkg + base + "/" + kind + "/" + detail
}

func funcRelName(f *ssa.Function) string {
	if f.Pkg != nil {
		return f.RelString(f.Pkg.Pkg)
	}
	return f.String()
}

// ---------- boolean helpers

func and(a ...string) string {
	var parts []string
	for _, x := range a {
		if x == "true" || x == "" {
			continue
		}
		if x == "false" {
			return "false"
		}
		parts = append(parts, x)
	}
	switch len(parts) {
	case 0:
		return "true"
	case 1:
		return parts[0]
	}
	return "(and " + strings.Join(parts, " ") + ")"
}

func or(a ...string) string {
	var parts []string
	for _, x := range a {
		if x == "false" || x == "" {
			continue
		}
		if x == "true" {
			return "true"
		}
		parts = append(parts, x)
	}
	switch len(parts) {
	case 0:
		return "false"
	case 1:
		return parts[0]
	}
	return "(or " + strings.Join(parts, " ") + ")"
}

func not(a string) string {
	if a == "true" {
		return "false"
	}
	if a == "false" {
		return "true"
	}
	if strings.HasPrefix(a, "(not ") && strings.HasSuffix(a, ")") && parenBalance(a[5:len(a)-1]) == 0 {
		return a[5 : len(a)-1]
	}
	return "(not " + a + ")"
}

func ite(c, a, b string) string {
	if a == b {
		return a
	}
	if c == "true" {
		return a
	}
	if c == "false" {
		return b
	}
	return "(ite " + c + " " + a + " " + b + ")"
}

// ---------- path read / write over SMT values

// readPath selects the sub-value of base (of Go type t) at path.
func (vc *VC) readPath(base string, t types.Type, path []Step) (string, types.Type) {
	for _, s := range path {
		switch u := t.Underlying().(type) {
		case *types.Struct:
			name := vc.S.sortOf(t)
			f := u.Field(s.Field)
			base = fmt.Sprintf("(%s.%s %s)", name, f.Name(), base)
			t = f.Type()
		case *types.Array:
			base = fmt.Sprintf("(select %s %s)", base, s.Idx)
			t = u.Elem()
		default:
			panic(fmt.Sprintf("readPath: cannot step into %s", t))
		}
	}
	return base, t
}

// writePath returns base with the sub-value at path replaced by val.
func (vc *VC) writePath(base string, t types.Type, path []Step, val string) string {
	if len(path) == 0 {
		return val
	}
	s := path[0]
	switch u := t.Underlying().(type) {
	case *types.Struct:
		name := vc.S.sortOf(t)
		var parts []string
		for i := 0; i < u.NumFields(); i++ {
			f := u.Field(i)
			sel := fmt.Sprintf("(%s.%s %s)", name, f.Name(), base)
			if i == s.Field {
				parts = append(parts, vc.writePath(sel, f.Type(), path[1:], val))
			} else {
				parts = append(parts, sel)
			}
		}
		return fmt.Sprintf("(mk-%s %s)", name, strings.Join(parts, " "))
	case *types.Array:
		inner := vc.writePath(fmt.Sprintf("(select %s %s)", base, s.Idx), u.Elem(), path[1:], val)
		return fmt.Sprintf("(store %s %s %s)", base, s.Idx, inner)
	}
	panic(fmt.Sprintf("writePath: cannot step into %s", t))
}

// ---------- memory

func (vc *VC) memName(elem types.Type) string {
	n := vc.S.memOf(elem)
	return n
}

func (vc *VC) memTerm(st *State, elem types.Type) string {
	n := vc.memName(elem)
	if t, ok := st.mem[n]; ok {
		return t
	}
	// declare entry memory lazily
	c := n + "!0"
	if !vc.declaredMem[n] {
		vc.declaredMem[n] = true
		vc.prependDecl(fmt.Sprintf("(declare-const %s %s)", c, vc.S.memSort(vc.S.sortOf(elem))))
	}
	if vc.entry != nil {
		if _, ok := vc.entry.mem[n]; !ok {
			vc.entry.mem[n] = c
		}
	}
	st.mem[n] = c
	return c
}

// prependDecl inserts a declaration at the very start of the context (valid for every obligation).
func (vc *VC) prependDecl(line string) {
	vc.decls = append(vc.decls, line)
}

func (vc *VC) ghostTerm(st *State, name, sort, init string) string {
	if t, ok := st.ghost[name]; ok {
		return t
	}
	c := name + "!0"
	if !vc.declaredGhost[name] {
		vc.declaredGhost[name] = true
		if init != "" {
			vc.prependDecl(fmt.Sprintf("(define-fun %s () %s %s)", c, sort, init))
		} else {
			vc.prependDecl(fmt.Sprintf("(declare-const %s %s)", c, sort))
		}
	}
	if vc.entry != nil {
		if _, ok := vc.entry.ghost[name]; !ok {
			vc.entry.ghost[name] = c
		}
	}
	st.ghost[name] = c
	return c
}

func (vc *VC) nextR(st *State) string {
	return vc.ghostTerm(st, "nextR", "Int", "")
}

// freshRegion allocates a new region id.
func (vc *VC) freshRegion(st *State) string {
	cur := vc.nextR(st)
	r := vc.def("rgn", "Int", cur)
	st.ghost["nextR"] = vc.def("nextR", "Int", fmt.Sprintf("(+ %s 1)", cur))
	return r
}

// elemAddr returns the index term into the region's backing array for element idx of slice sl.
func (vc *VC) sliceIndex(sl, idx string) string {
	if vc.mode == Math {
		return fmt.Sprintf("(+ (s.off %s) %s)", sl, idx)
	}
	return fmt.Sprintf("(bvadd (s.off %s) %s)", sl, idx)
}

// syncOut brings obj's value up to date with the regions linked to arrays inside it.
func (vc *VC) syncOut(st *State, o *Obj) {
	if len(st.links) == 0 {
		return
	}
	var keys []string
	for k, l := range st.links {
		if l.ptr.obj == o {
			keys = append(keys, k)
		}
	}
	if len(keys) == 0 {
		return
	}
	sort.Strings(keys)
	cur := st.objs[o]
	t := cur.T
	for _, k := range keys {
		l := st.links[k]
		arr := fmt.Sprintf("(select %s %s)", vc.memTerm(st, l.elem), l.rid)
		t = vc.writePath(t, o.typ, l.ptr.path, arr)
	}
	cur.T = vc.def("sync", vc.S.sortOf(o.typ), t)
	st.objs[o] = cur
}

// syncIn pushes obj's value into the regions linked to arrays inside it.
func (vc *VC) syncIn(st *State, o *Obj) {
	if len(st.links) == 0 {
		return
	}
	var keys []string
	for k, l := range st.links {
		if l.ptr.obj == o {
			keys = append(keys, k)
		}
	}
	sort.Strings(keys)
	for _, k := range keys {
		l := st.links[k]
		arr, _ := vc.readPath(st.objs[o].T, o.typ, l.ptr.path)
		mn := vc.memName(l.elem)
		m := vc.memTerm(st, l.elem)
		st.mem[mn] = vc.def("mem", vc.S.memSort(vc.S.sortOf(l.elem)), fmt.Sprintf("(store %s %s %s)", m, l.rid, arr))
	}
}

func isStaticOnly(t types.Type) bool {
	switch t.Underlying().(type) {
	case *types.Pointer, *types.Signature:
		return true
	}
	return false
}

// load reads through a static pointer.
func (vc *VC) load(st *State, p *Ptr) SV {
	if p.obj != nil {
		cur, ok := st.objs[p.obj]
		if !ok {
			cur = vc.initObj(st, p.obj)
		}
		if len(p.path) == 0 && (cur.P != nil || cur.F != nil) {
			return cur
		}
		vc.syncOut(st, p.obj)
		cur = st.objs[p.obj]
		t, ty := vc.readPath(cur.T, p.obj.typ, p.path)
		sv := SV{T: t, Typ: ty}
		if len(p.path) == 0 {
			sv.SLen = cur.SLen
			sv.Lnk = cur.Lnk
		}
		return sv
	}
	base := fmt.Sprintf("(select (select %s (s.rgn %s)) %s)", vc.memTerm(st, p.elemT), p.sl, vc.sliceIndex(p.sl, p.idx))
	t, ty := vc.readPath(base, p.elemT, p.path)
	return SV{T: t, Typ: ty}
}

// initObj creates the initial value of an object not yet in the state (globals).
func (vc *VC) initObj(st *State, o *Obj) SV {
	if vc.entry != nil {
		if ev, ok := vc.entry.objs[o]; ok {
			st.objs[o] = ev
			return ev
		}
	}
	name := vc.fresh(sanitize(o.name))
	vc.prependDecl(fmt.Sprintf("(declare-const %s %s)", name, vc.S.sortOf(o.typ)))
	sv := SV{T: name, Typ: o.typ}
	st.objs[o] = sv
	if vc.entry != nil {
		if _, ok := vc.entry.objs[o]; !ok {
			vc.entry.objs[o] = sv
		}
	}
	return sv
}

// store writes through a static pointer.
func (vc *VC) store(st *State, p *Ptr, v SV) {
	if p.obj != nil {
		if len(p.path) == 0 && (v.P != nil || v.F != nil || isStaticOnly(p.obj.typ)) {
			st.objs[p.obj] = v
			return
		}
		cur, ok := st.objs[p.obj]
		if !ok {
			cur = vc.initObj(st, p.obj)
		}
		vc.syncOut(st, p.obj)
		cur = st.objs[p.obj]
		val := v.T
		if val == "" {
			val = vc.ptrTerm(v)
		}
		nt := vc.writePath(cur.T, p.obj.typ, p.path, val)
		nv := SV{T: vc.def(sanitize(p.obj.name), vc.S.sortOf(p.obj.typ), nt), Typ: p.obj.typ}
		if len(p.path) == 0 {
			nv.SLen = v.SLen
			nv.Lnk = v.Lnk
		}
		st.objs[p.obj] = nv
		vc.syncIn(st, p.obj)
		return
	}
	mn := vc.memName(p.elemT)
	m := vc.memTerm(st, p.elemT)
	arr := fmt.Sprintf("(select %s (s.rgn %s))", m, p.sl)
	ix := vc.sliceIndex(p.sl, p.idx)
	val := v.T
	if val == "" {
		val = vc.ptrTerm(v)
	}
	elem := vc.writePath(fmt.Sprintf("(select %s %s)", arr, ix), p.elemT, p.path, val)
	st.mem[mn] = vc.def("mem", vc.S.memSort(vc.S.sortOf(p.elemT)), fmt.Sprintf("(store %s (s.rgn %s) (store %s %s %s))", m, p.sl, arr, ix, elem))
}

// ptrTerm gives a first-class (Int) encoding of a static pointer / function value.
func (vc *VC) ptrTerm(v SV) string {
	if v.T != "" {
		return v.T
	}
	if v.P != nil {
		k := v.P.key()
		id, ok := vc.ptrIDs[k]
		if !ok {
			id = len(vc.ptrIDs) + 1
			vc.ptrIDs[k] = id
		}
		return fmt.Sprintf("%d", 1000+id)
	}
	if v.F != nil {
		return fmt.Sprintf("%d", vc.fnID(v.F.fn))
	}
	return "0"
}

func (vc *VC) fnID(f *ssa.Function) int {
	return vc.eng.fnID(f)
}

func sanitize(s string) string {
	r := strings.NewReplacer(" ", "_", "(", "", ")", "", "*", "", "/", "_", "|", "_", "#", "_", "$", "_", "[", "_", "]", "_", ",", "_", "{", "_", "}", "_", ";", "_", "\"", "_")
	return r.Replace(s)
}

func (vc *VC) newObj(name string, t types.Type, kind string) *Obj {
	vc.objN++
	return &Obj{name: name, typ: t, kind: kind, id: vc.objN}
}

// assumeWF asserts the well-formedness facts of a freshly declared value of Go type t.
func (vc *VC) assumeWF(pc string, term string, t types.Type, st *State, depth int) {
	if depth > 4 {
		return
	}
	switch u := t.Underlying().(type) {
	case *types.Slice:
		nr := vc.nextR(st)
		if vc.mode == Math {
			vc.assume(pc, fmt.Sprintf("(and (<= 0 (s.rgn %s)) (< (s.rgn %s) %s) (<= 0 (s.off %s)) (< (s.off %s) 140737488355328) (<= 0 (s.len %s)) (<= (s.len %s) (s.cap %s)) (< (s.cap %s) 140737488355328))", term, term, nr, term, term, term, term, term, term))
		} else {
			lim := "#x0000800000000000"
			vc.assume(pc, fmt.Sprintf("(and (<= 0 (s.rgn %s)) (< (s.rgn %s) %s) (bvult (s.off %s) %s) (bvule (s.len %s) (s.cap %s)) (bvult (s.cap %s) %s))", term, term, nr, term, lim, term, term, term, lim))
		}
	case *types.Basic:
		if u.Kind() == types.String {
			if vc.mode == Math {
				vc.assume(pc, fmt.Sprintf("(<= 0 (gostr.len %s))", term))
			} else {
				vc.assume(pc, fmt.Sprintf("(bvult (gostr.len %s) #x0000800000000000)", term))
			}
		} else if bits, signed, ok := intInfo(u); ok && vc.mode == Math {
			lo, hi := intRange(bits, signed)
			vc.assume(pc, fmt.Sprintf("(and (<= %s %s) (<= %s %s))", lo, term, term, hi))
		}
	case *types.Struct:
		name := vc.S.sortOf(t)
		for i := 0; i < u.NumFields(); i++ {
			f := u.Field(i)
			if needsWF(f.Type(), vc.mode) {
				vc.assumeWF(pc, fmt.Sprintf("(%s.%s %s)", name, f.Name(), term), f.Type(), st, depth+1)
			}
		}
	case *types.Array:
		if vc.mode == Math && needsWF(u.Elem(), vc.mode) && u.Len() <= 64 {
			// element ranges for small arrays of integers (math mode only)
			for i := int64(0); i < u.Len(); i++ {
				vc.assumeWF(pc, fmt.Sprintf("(select %s %d)", term, i), u.Elem(), st, depth+1)
			}
		}
	}
}

func needsWF(t types.Type, mode Mode) bool {
	switch u := t.Underlying().(type) {
	case *types.Slice:
		return true
	case *types.Basic:
		if u.Kind() == types.String {
			return true
		}
		_, _, ok := intInfo(u)
		return ok && mode == Math
	case *types.Struct:
		for i := 0; i < u.NumFields(); i++ {
			if needsWF(u.Field(i).Type(), mode) {
				return true
			}
		}
	case *types.Array:
		return mode == Math && needsWF(u.Elem(), mode)
	}
	return false
}

func intRange(bits int, signed bool) (string, string) {
	if signed {
		switch bits {
		case 8:
			return "(- 128)", "127"
		case 16:
			return "(- 32768)", "32767"
		case 32:
			return "(- 2147483648)", "2147483647"
		default:
			return "(- 9223372036854775808)", "9223372036854775807"
		}
	}
	switch bits {
	case 8:
		return "0", "255"
	case 16:
		return "0", "65535"
	case 32:
		return "0", "4294967295"
	}
	return "0", "18446744073709551615"
}
