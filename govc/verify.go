package main

import (
	"sync"
	"regexp"
	"fmt"
	"go/token"
	"go/types"
	"sort"
	"strings"

	"golang.org/x/tools/go/ssa"
)

func (eng *Engine) newVC(fn *ssa.Function, con *Contract) *VC {
	mode := Bits
	if con != nil && con.Mode == "math" {
		mode = Math
	}
	vc := &VC{eng: eng, fn: fn, con: con, mode: mode, S: newSorts(mode), uses: map[string]bool{}, assum: map[string]bool{},
		globals: map[*ssa.Global]*Obj{}, ptrIDs: map[string]int{}, strIDs: map[string]int{}, callSeq: map[string]int{}, safeSeq: map[string]int{},
		declaredMem: map[string]bool{}, declaredGhost: map[string]bool{}, calleesUsed: map[string]bool{}}
	vc.uses["base"] = true
	if con != nil {
		for _, u := range con.Uses {
			vc.uses[u] = true
		}
	}
	return vc
}

// verifyFunc generates every obligation of fn under contract con.
func (eng *Engine) verifyFunc(fn *ssa.Function, con *Contract) (vc *VC) {
	vc = eng.newVC(fn, con)
	defer func() {
		if r := recover(); r != nil {
			vc.obls = append(vc.obls, &Obl{Name: vc.oblName("subset", "generator-panic"), Kind: "subset", PC: "true", Goal: "false",
				Failed: fmt.Sprintf("generator panic: %v", r), vc: vc, Func: fn.String(), Mode: vc.mode})
		}
	}()
	st := newState()
	vc.entry = st
	top := vc.newFrame(fn, nil)
	top.isTop = true
	top.con = con
	vc.top = top
	// force spec-required sorts first
	vc.forceSpecTypes()
	nr := vc.nextR(st)
	vc.assume("true", fmt.Sprintf("(> %s 0)", nr))
	bind := func(v ssa.Value, name string, kind string) {
		t := v.Type()
		if pt, ok := t.Underlying().(*types.Pointer); ok {
			el := pt.Elem()
			if inner, ok2 := el.Underlying().(*types.Pointer); ok2 && kind == "freevar" {
				// captured pointer variable: a cell holding a pointer to a symbolic object
				target := vc.newObj(name+".target", inner.Elem(), "param")
				tn := vc.decl(sanitize(name)+"_in", vc.S.sortOf(inner.Elem()))
				vc.assumeWF("true", tn, inner.Elem(), st, 0)
				st.objs[target] = SV{T: tn, Typ: inner.Elem()}
				cell := vc.newObj(name, el, kind)
				st.objs[cell] = SV{P: &Ptr{obj: target, typ: inner.Elem()}, Typ: el}
				sv := SV{P: &Ptr{obj: cell, typ: el}, Typ: t}
				top.vals[v] = sv
				top.params[name] = st.objs[cell]
				return
			}
			if isStaticOnly(el) {
				vc.unsupported(v.Pos(), "parameter %s: pointer to pointer/function", name)
			}
			o := vc.newObj(name, el, kind)
			tn := vc.decl(sanitize(name)+"_in", vc.S.sortOf(el))
			vc.assumeWF("true", tn, el, st, 0)
			st.objs[o] = SV{T: tn, Typ: el}
			sv := SV{P: &Ptr{obj: o, typ: el}, Typ: t}
			top.vals[v] = sv
			top.params[name] = sv
			return
		}
		tn := vc.decl(sanitize(name)+"_in", vc.S.sortOf(t))
		vc.assumeWF("true", tn, t, st, 0)
		sv := SV{T: tn, Typ: t}
		top.vals[v] = sv
		top.params[name] = sv
	}
	for _, p := range fn.Params {
		bind(p, p.Name(), "param")
	}
	for _, fv := range fn.FreeVars {
		bind(fv, fv.Name(), "freevar")
	}
	if con != nil && con.BindName != "" {
		// case of a split on a plain parameter: the parameter IS the value (lets the generator prune dead branches)
		for _, p := range fn.Params {
			if p.Name() == con.BindName {
				if sv, ok := top.vals[p]; ok && sv.P == nil {
					env := top.env(st, st, nil)
					if t, err := env.eval(con.BindVal); err == nil {
						sv.T = t
						top.vals[p] = sv
						top.params[p.Name()] = sv
					}
				}
			}
		}
	}
	// entry snapshot: vc.entry keeps being the map that lazily receives first-touch declarations;
	// the running state starts as a copy.
	run := st.clone()
	if con != nil {
		env := top.env(st, st, nil)
		for _, r := range con.Requires {
			t, err := env.eval(r.Expr)
			if err != nil {
				vc.failObl(vc.oblName("requires", "unparsable"), r, err)
				continue
			}
			vc.assume("true", t)
		}
		// the residual case of an exhaustive split is infeasible by construction: nothing to cover there
		if len(con.Requires) > 0 && !strings.HasSuffix(con.CaseTag, "=other]") {
			vc.addObl(&Obl{Name: vc.oblName("vacuity", "requires-satisfiable"), Kind: "vacuity", PC: "true", Goal: "true", ExpectSat: true,
				Pos: eng.fset.Position(fn.Pos()), Clause: "the preconditions (with well-formedness facts) are satisfiable"})
		}
	}
	top.run("true", run)
	vc.finish(top)
	for _, u := range vc.unsup {
		vc.obls = append(vc.obls, &Obl{Name: vc.oblName("subset", fmt.Sprintf("unsupported@%d", len(vc.obls))), Kind: "subset", PC: "true", Goal: "false", Failed: u, vc: vc, Func: fn.String(), Mode: vc.mode})
	}
	return vc
}

func (vc *VC) forceSpecTypes() {
	seen := map[string]bool{}
	var visit func(use string)
	visit = func(use string) {
		if seen[use] {
			return
		}
		seen[use] = true
		text, err := vc.eng.specText(use, vc.mode)
		if err != nil {
			return
		}
		for _, inc := range specIncludes(text) {
			vc.uses[inc] = true
			visit(inc)
		}
		for _, tn := range specRequiredTypes(text) {
			if strings.HasPrefix(tn, "iface:") {
				if t := vc.eng.ifaceByShort[strings.TrimPrefix(tn, "iface:")]; t != nil {
					vc.declareIface(t)
				}
				continue
			}
			if t := vc.eng.findType("", tn); t != nil {
				vc.S.sortOf(t)
			}
		}
	}
	var us []string
	for u := range vc.uses {
		us = append(us, u)
	}
	sort.Strings(us)
	for _, u := range us {
		visit(u)
	}
}

// restoreLinks: regions that back arrays of this activation (linked arrays) are ghost artefacts or dead stack storage:
// their contents are restored to the entry contents so that frame statements about memory can be exact.
func (vc *VC) restoreLinks(st *State) {
	if len(st.links) == 0 {
		return
	}
	var lk []string
	for k := range st.links {
		lk = append(lk, k)
	}
	sort.Strings(lk)
	for _, k := range lk {
		l := st.links[k]
		if l.heap {
			continue
		}
		mn := vc.memName(l.elem)
		cur := vc.memTerm(st, l.elem)
		ent := vc.entry.mem[mn]
		st.mem[mn] = vc.def("mem", vc.S.memSort(vc.S.sortOf(l.elem)), fmt.Sprintf("(store %s %s (select %s %s))", cur, l.rid, ent, l.rid))
	}
	st.links = map[string]*Link{}
	vc.assum["slices of local arrays do not outlive the function that creates them"] = true
}

// finish emits the postcondition and frame obligations at the (merged) return point.
func (vc *VC) finish(top *Frame) {
	fn := vc.fn
	if len(top.rets) == 0 {
		return
	}
	if vc.con != nil && vc.con.PerReturn && len(top.rets) > 1 {
		// postconditions are checked at each return separately (small path conditions); the merged state below
		// serves the frame conditions and the replay only
		results := fn.Signature.Results()
		for k, r := range top.rets {
			st := r.st.clone()
			var robjs []*Obj
			for o := range st.objs {
				robjs = append(robjs, o)
			}
			sort.Slice(robjs, func(i, j int) bool { return robjs[i].id < robjs[j].id })
			for _, o := range robjs {
				if st.objs[o].T != "" {
					vc.syncOut(st, o)
				}
			}
			vc.restoreLinks(st)
			extra := map[string]SV{}
			for i := 0; i < results.Len(); i++ {
				extra[fmt.Sprintf("result.%d", i)] = r.vals[i]
				if n := results.At(i).Name(); n != "" && n != "_" {
					if _, clash := top.params[n]; !clash {
						extra[n] = r.vals[i]
					}
				}
			}
			if results.Len() == 1 {
				extra["result"] = r.vals[0]
			}
			var earlier []string
			for i, e := range vc.con.Ensures {
				env := top.env(st, vc.entry, extra)
				name := vc.oblName("ensures", fmt.Sprintf("%s@ret%d", ensName(e, i), k))
				t, err := env.eval(e.Expr)
				if err != nil {
					vc.failObl(name, e, err)
					continue
				}
				goal := t
				if e.Cumulative && len(earlier) > 0 {
					goal = fmt.Sprintf("(=> %s %s)", and(earlier...), t)
				}
				earlier = append(earlier, t)
				vc.addObl(&Obl{Name: name, Kind: "ensures", Labels: e.Labels, Pos: clausePos(e), PC: r.pc, Goal: goal, Clause: e.Text, Tier: e.Tier, Isolated: e.Cumulative})
			}
		}
	}
	var edges []Edge
	var conds []string
	for _, r := range top.rets {
		// per path, before merging: bring linked arrays up to date and give the regions of this path's local arrays their
		// entry contents back. (Doing this after the merge would also wipe, on the other paths, whatever a callee
		// allocated there under the same region number.)
		rst := r.st.clone()
		var robjs []*Obj
		for o := range rst.objs {
			robjs = append(robjs, o)
		}
		sort.Slice(robjs, func(i, j int) bool { return robjs[i].id < robjs[j].id })
		for _, o := range robjs {
			if rst.objs[o].T != "" {
				vc.syncOut(rst, o)
			}
		}
		vc.restoreLinks(rst)
		edges = append(edges, Edge{pc: r.pc, st: rst})
		conds = append(conds, r.pc)
	}
	st := top.mergeStates(edges, fn.Pos())
	pc := vc.def("pcret", "Bool", or(conds...))
	// bring linked arrays up to date
	var objs []*Obj
	for o := range st.objs {
		objs = append(objs, o)
	}
	sort.Slice(objs, func(i, j int) bool { return objs[i].id < objs[j].id })
	for _, o := range objs {
		if st.objs[o].T != "" {
			vc.syncOut(st, o)
		}
	}
	vc.restoreLinks(st)
	results := fn.Signature.Results()
	extra := map[string]SV{}
	var cols []SV
	for i := 0; i < results.Len(); i++ {
		var alts []SV
		for _, r := range top.rets {
			alts = append(alts, r.vals[i])
		}
		sv := top.mergeSV(results.At(i).Type(), alts, conds, "result")
		cols = append(cols, sv)
		extra[fmt.Sprintf("result.%d", i)] = sv
		if n := results.At(i).Name(); n != "" && n != "_" {
			if _, clash := top.params[n]; !clash {
				extra[n] = sv
			}
		}
	}
	if len(cols) == 1 {
		extra["result"] = cols[0]
	}
	for i, sv := range cols {
		if sv.T != "" {
			vc.final = append(vc.final, finalRoot{goName: fmt.Sprintf("out%d", i), src: fmt.Sprintf("result.%d", i), term: sv.T, typ: results.At(i).Type(), st: st})
		}
	}
	for i, p := range fn.Params {
		if sv := top.params[p.Name()]; sv.P != nil && sv.P.obj != nil {
			if cur, ok := st.objs[sv.P.obj]; ok && cur.T != "" {
				vc.final = append(vc.final, finalRoot{goName: fmt.Sprintf("in%d", i), src: p.Name(), term: cur.T, typ: sv.P.typ, st: st})
			}
		}
	}
	pos := vc.eng.fset.Position(fn.Pos())
	if vc.con != nil && !(vc.con.PerReturn && len(top.rets) > 1) {
		var earlier []string
		for i, e := range vc.con.Ensures {
			env := top.env(st, vc.entry, extra)
			name := vc.oblName("ensures", ensName(e, i))
			t, err := env.eval(e.Expr)
			if err != nil {
				vc.failObl(name, e, err)
				continue
			}
			goal := t
			if e.Cumulative && len(earlier) > 0 {
				// the proof may use the earlier postconditions (each of them is an obligation of its own)
				goal = fmt.Sprintf("(=> %s %s)", and(earlier...), t)
			}
			earlier = append(earlier, t)
			vc.addObl(&Obl{Name: name, Kind: "ensures", Labels: e.Labels, Pos: clausePos(e), PC: pc, Goal: goal, Clause: e.Text, Tier: e.Tier, Isolated: e.Cumulative})
		}
	}
	// frame conditions
	mods := map[string]bool{}
	var modPtrs []*Ptr
	if vc.con != nil {
		env := top.env(st, vc.entry, nil)
		for _, m := range vc.con.Modifies {
			if m == "nextR" || strings.HasPrefix(m, "mem.") || strings.HasPrefix(m, "tr.") || strings.HasPrefix(m, "mon.") {
				mods[m] = true
				continue
			}
			p, err := env.resolvePtr(m)
			if err != nil {
				vc.addObl(&Obl{Name: vc.oblName("frame", "modifies:"+m), Kind: "subset", PC: "true", Goal: "false", Failed: err.Error(), Pos: pos})
				continue
			}
			modPtrs = append(modPtrs, p)
		}
	}
	for _, o := range objs {
		if o.kind == "alloc" {
			continue
		}
		cur := st.objs[o]
		ent, ok := vc.entry.objs[o]
		if !ok || cur.T == "" || cur.T == ent.T {
			continue
		}
		masked := cur.T
		whole := false
		for _, p := range modPtrs {
			if p.obj != o {
				continue
			}
			if len(p.path) == 0 {
				whole = true
				break
			}
			oldSub, _ := vc.readPath(ent.T, o.typ, p.path)
			masked = vc.def("masked", vc.S.sortOf(o.typ), vc.writePath(masked, o.typ, p.path, oldSub))
		}
		if whole {
			continue
		}
		vc.addObl(&Obl{Name: vc.oblName("frame", sanitize(o.name)), Kind: "frame", Pos: pos, PC: pc,
			Goal: fmt.Sprintf("(= %s %s)", masked, ent.T), Clause: fmt.Sprintf("everything in %s outside the modifies clause is unchanged", o.name)})
	}
	var mks []string
	for k := range st.mem {
		mks = append(mks, k)
	}
	sort.Strings(mks)
	for _, k := range mks {
		ent, ok := vc.entry.mem[k]
		if mods[k] || !ok || st.mem[k] == ent {
			continue
		}
		r0 := vc.entry.ghost["nextR"]
		vc.addObl(&Obl{Name: vc.oblName("frame", k), Kind: "frame", Pos: pos, PC: pc,
			Goal:   fmt.Sprintf("(forall ((r!f Int)) (=> (< r!f %s) (= (select %s r!f) (select %s r!f))))", r0, st.mem[k], ent),
			Clause: fmt.Sprintf("no region of %s existing at entry is written (not in modifies)", k)})
	}
	var gks []string
	for k := range st.ghost {
		gks = append(gks, k)
	}
	sort.Strings(gks)
	for _, k := range gks {
		if k == "nextR" || mods[k] || strings.HasPrefix(k, "mon.") {
			continue // monitor states are functions of the traces: no frame obligation of their own
		}
		ent, ok := vc.entry.ghost[k]
		if !ok || st.ghost[k] == ent {
			continue
		}
		vc.addObl(&Obl{Name: vc.oblName("frame", k), Kind: "frame", Pos: pos, PC: pc,
			Goal: fmt.Sprintf("(= %s %s)", st.ghost[k], ent), Clause: fmt.Sprintf("%s unchanged (not in modifies)", k)})
	}
}

func ensName(e Clause, i int) string {
	if len(e.Labels) > 0 {
		return e.Labels[0]
	}
	return fmt.Sprintf("#%d", i)
}

func clausePos(c Clause) token.Position {
	return token.Position{Filename: c.File, Line: c.Line}
}

// prelude returns the text preceding the context lines of every obligation of this VC.
func (vc *VC) prelude() (string, error) {
	var b strings.Builder
	for _, d := range vc.S.decls {
		b.WriteString(d)
		b.WriteString("\n")
	}
	seen := map[string]bool{}
	var order []string
	provided := map[string]bool{}
	texts := map[string]string{}
	opaqueSet := map[string]bool{}
	for u := range vc.uses {
		if strings.HasPrefix(u, "opaque:") {
			opaqueSet[strings.TrimPrefix(u, "opaque:")] = true
		}
	}
	var visit func(use string) error
	visit = func(use string) error {
		if seen[use] {
			return nil
		}
		seen[use] = true
		opaque := false
		if strings.HasPrefix(use, "opaque:") {
			opaque = true
			use = strings.TrimPrefix(use, "opaque:")
			if seen[use] {
				return nil
			}
			seen[use] = true
		}
		if provided[use] {
			return nil
		}
		text, err := vc.eng.specText(use, vc.mode)
		if err != nil {
			// a library that exists only for the other reading is simply not part of this VC
			return nil
		}
		if opaque || opaqueSet[use] {
			// opaque view: every function of this library is declared, not defined
			texts[use] = opaqueView(text)
		}
		// "; provides: X": several files may provide the same interface (defined vs. opaque view); the first one wins
		for _, l := range strings.Split(text, "\n") {
			if strings.HasPrefix(strings.TrimSpace(l), "; provides:") {
				for _, p := range strings.Fields(strings.TrimPrefix(strings.TrimSpace(l), "; provides:")) {
					if provided[p] {
						return nil
					}
				}
			}
		}
		provided[use] = true
		for _, l := range strings.Split(text, "\n") {
			if strings.HasPrefix(strings.TrimSpace(l), "; provides:") {
				for _, p := range strings.Fields(strings.TrimPrefix(strings.TrimSpace(l), "; provides:")) {
					provided[p] = true
				}
			}
		}
		for _, inc := range specIncludes(text) {
			if err := visit(inc); err != nil {
				return err
			}
		}
		order = append(order, use)
		return nil
	}
	var us []string
	for u := range vc.uses {
		us = append(us, u)
	}
	sort.Strings(us)
	// base first, then the contract's own libraries in the order it names them (they take precedence)
	if err := visit("base"); err != nil {
		return "", err
	}
	if vc.con != nil {
		for _, u := range vc.con.Uses {
			if err := visit(u); err != nil {
				return "", err
			}
		}
	}
	for _, u := range us {
		if err := visit(u); err != nil {
			return "", err
		}
	}
	for _, u := range order {
		text, _ := vc.eng.specText(u, vc.mode)
		if t, ok := texts[u]; ok {
			text = t
		}
		b.WriteString("; ---- spec library: " + u + "\n")
		b.WriteString(text)
		b.WriteString("\n")
	}
	return b.String(), nil
}

// smtText renders one obligation as a complete SMT-LIB script.
func (o *Obl) smtText(withModel bool) (string, error) {
	vc := o.vc
	pre, err := vc.prelude()
	if err != nil {
		return "", err
	}
	var b strings.Builder
	b.WriteString("; obligation: " + o.Name + "\n")
	b.WriteString("; function:   " + o.Func + "\n")
	b.WriteString("; clause:     " + o.Clause + "\n")
	b.WriteString("(set-option :produce-models true)\n(set-logic ALL)\n")
	if o.Raw == "" {
		// only the spec definitions this function's VC mentions (directly or through other definitions): unused ones
		// change nothing logically, but they do perturb the solvers' heuristics
		pre = vc.prunedPrelude(pre)
	}
	b.WriteString(pre)
	if o.Raw != "" {
		b.WriteString("; ---- lemma body\n")
		b.WriteString(o.Raw)
		b.WriteString("\n(check-sat)\n")
		if withModel {
			b.WriteString("(get-model)\n")
		}
		return b.String(), nil
	}
	b.WriteString("; ---- context\n")
	for _, l := range vc.decls {
		b.WriteString(l)
		b.WriteString("\n")
	}
	var relevant map[string]bool
	if o.Sliced {
		relevant = o.cone()
	}
	for _, l := range vc.lines[:o.Prefix] {
		if o.Isolated && strings.HasPrefix(l, "(assert") {
			continue // a lemma over the contract's own clauses: proved from the earlier clauses alone
		}
		if o.Sliced && strings.HasPrefix(l, "(assert") && !mentionsAny(l, relevant) {
			continue // sliced attempt: only assumptions that talk about something the goal depends on (fewer hypotheses: sound)
		}
		b.WriteString(l)
		b.WriteString("\n")
	}
	b.WriteString("; ---- goal\n")
	if o.ExpectSat {
		b.WriteString(fmt.Sprintf("(assert %s)\n", o.PC))
	} else {
		b.WriteString(fmt.Sprintf("(assert (not (=> %s %s)))\n", o.PC, o.Goal))
	}
	b.WriteString("(check-sat)\n")
	if withModel {
		b.WriteString("(get-model)\n")
	}
	return b.String(), nil
}

type preForm struct {
	text string
	kind string // head of the form
	name string
	toks []string
}

var preFormCache = map[string][]preForm{}

// splitForms cuts SMT-LIB text into its top-level forms (comments between forms are dropped).
func splitForms(text string) []preForm {
	if f, ok := preFormCache[text]; ok {
		return f
	}
	var out []preForm
	depth, start := 0, -1
	for i := 0; i < len(text); i++ {
		c := text[i]
		switch {
		case c == ';':
			for i < len(text) && text[i] != '\n' {
				i++
			}
		case c == '"':
			i++
			for i < len(text) && text[i] != '"' {
				i++
			}
		case c == '|':
			i++
			for i < len(text) && text[i] != '|' {
				i++
			}
		case c == '(':
			if depth == 0 {
				start = i
			}
			depth++
		case c == ')':
			depth--
			if depth == 0 && start >= 0 {
				t := text[start : i+1]
				toks := symRe.FindAllString(stripComments(t), -1)
				f := preForm{text: t, toks: toks}
				if len(toks) > 0 {
					f.kind = toks[0]
				}
				if len(toks) > 1 {
					f.name = toks[1]
				}
				out = append(out, f)
				start = -1
			}
		}
	}
	preFormCache[text] = out
	return out
}

func stripComments(t string) string {
	if !strings.Contains(t, ";") {
		return t
	}
	var b strings.Builder
	for _, l := range strings.Split(t, "\n") {
		if i := strings.Index(l, ";"); i >= 0 {
			l = l[:i]
		}
		b.WriteString(l)
		b.WriteString("\n")
	}
	return b.String()
}

// prunedPrelude drops the function definitions / declarations (and the axioms about them) that nothing in this VC's
// context or obligations refers to. Sound: an unused definition constrains nothing; a dropped axiom only weakens.
var pruneMu sync.Mutex

func (vc *VC) prunedPrelude(pre string) string {
	pruneMu.Lock()
	defer pruneMu.Unlock()
	if vc.pruned == nil {
		vc.pruned = map[string]string{}
	}
	if out, ok := vc.pruned[pre]; ok {
		return out
	}
	out := vc.prunedPrelude1(pre)
	vc.pruned[pre] = out
	return out
}

func (vc *VC) prunedPrelude1(pre string) string {
	if vc.needed == nil {
		need := map[string]bool{}
		add := func(t string) {
			for _, tok := range symRe.FindAllString(t, -1) {
				need[tok] = true
			}
		}
		for _, l := range vc.decls {
			add(l)
		}
		for _, l := range vc.lines {
			add(l)
		}
		for _, ob := range vc.obls {
			add(ob.PC)
			add(ob.Goal)
		}
		vc.needed = need
	}
	forms := splitForms(pre)
	specName := map[string]bool{}
	for _, f := range forms {
		switch f.kind {
		case "define-fun", "declare-fun", "define-fun-rec", "declare-const":
			specName[f.name] = true
		}
	}
	need := map[string]bool{}
	for k := range vc.needed {
		need[k] = true
	}
	keep := make([]bool, len(forms))
	for i := len(forms) - 1; i >= 0; i-- {
		f := forms[i]
		switch f.kind {
		case "define-fun", "declare-fun", "define-fun-rec", "declare-const":
			keep[i] = need[f.name]
		case "assert":
			for _, t := range f.toks {
				if specName[t] && need[t] {
					keep[i] = true
					break
				}
			}
		default:
			keep[i] = true
		}
		if keep[i] {
			for _, t := range f.toks {
				need[t] = true
			}
		}
	}
	var b strings.Builder
	for i, f := range forms {
		if keep[i] {
			b.WriteString(f.text)
			b.WriteString("\n")
		}
	}
	return b.String()
}

var symRe = regexp.MustCompile(`[^\s()]+`)

// cone: the declared symbols the goal depends on, through the definitions of the context.
func (o *Obl) cone() map[string]bool {
	vc := o.vc
	defs := map[string]string{}
	declared := map[string]bool{}
	note := func(l string) {
		switch {
		case strings.HasPrefix(l, "(define-fun "):
			f := strings.Fields(l[len("(define-fun "):])
			if len(f) > 0 {
				defs[f[0]] = l
			}
		case strings.HasPrefix(l, "(declare-const "), strings.HasPrefix(l, "(declare-fun "):
			f := strings.Fields(l[strings.Index(l, " ")+1:])
			if len(f) > 0 {
				declared[f[0]] = true
			}
		}
	}
	for _, l := range vc.decls {
		note(l)
	}
	for _, l := range vc.lines[:o.Prefix] {
		note(l)
	}
	seen := map[string]bool{}
	out := map[string]bool{}
	var visit func(text string)
	visit = func(text string) {
		for _, tok := range symRe.FindAllString(text, -1) {
			if seen[tok] {
				continue
			}
			seen[tok] = true
			if declared[tok] {
				out[tok] = true
			}
			if d, ok := defs[tok]; ok {
				visit(d)
			}
		}
	}
	visit(o.Goal)
	return out
}

func mentionsAny(l string, set map[string]bool) bool {
	for _, tok := range symRe.FindAllString(l, -1) {
		if set[tok] {
			return true
		}
	}
	return false
}

// opaqueView turns every define-fun with parameters into a declare-fun (same signature, no body).
// Proving a goal with uninterpreted functions is valid for every interpretation, in particular the defined one.
func opaqueView(text string) string {
	sx, err := parseSexps(text)
	if err != nil {
		return text
	}
	var b strings.Builder
	for _, l := range strings.Split(text, "\n") {
		t := strings.TrimSpace(l)
		if strings.HasPrefix(t, "; include:") || strings.HasPrefix(t, "; provides:") || strings.HasPrefix(t, "; requires-") || strings.HasPrefix(t, "; monitor") {
			b.WriteString(l + "\n")
		}
	}
	b.WriteString("; (opaque view: definitions replaced by declarations)\n")
	for _, s := range sx {
		if s.Head() == "define-fun" && len(s.List) == 5 && s.List[2].IsL && len(s.List[2].List) > 0 {
			var sorts []string
			for _, p := range s.List[2].List {
				if p.IsL && len(p.List) == 2 {
					sorts = append(sorts, p.List[1].String())
				}
			}
			fmt.Fprintf(&b, "(declare-fun %s (%s) %s)\n", s.List[1].String(), strings.Join(sorts, " "), s.List[3].String())
			continue
		}
		if s.Head() == "assert" {
			continue // axioms about the (now uninterpreted) functions are dropped: weaker, still sound
		}
		b.WriteString(s.String() + "\n")
	}
	return b.String()
}
