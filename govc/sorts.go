package main

import (
	"fmt"
	"go/types"
	"math/big"
	"strings"
)

type Mode int

const (
	Bits Mode = iota
	Math
)

func (m Mode) String() string {
	if m == Math {
		return "math"
	}
	return "bits"
}

// Sorts maps Go types to SMT sorts for one VC (one mode) and collects datatype declarations.
type Sorts struct {
	mode   Mode
	decls  []string          // declarations, in dependency order
	names  map[string]string // type string -> sort name
	structs map[string]*types.Struct
	structT map[string]types.Type
	ifaces map[string]*types.Named // event datatypes declared for interfaces, by short name
	ifaceDecl map[string]bool
	memSorts map[string]string // elem sort -> mem variable base name
	anon   int
}

func newSorts(mode Mode) *Sorts {
	s := &Sorts{mode: mode, names: map[string]string{}, structs: map[string]*types.Struct{}, structT: map[string]types.Type{},
		ifaces: map[string]*types.Named{}, ifaceDecl: map[string]bool{}, memSorts: map[string]string{}}
	ix := s.idxSort()
	s.decls = append(s.decls,
		fmt.Sprintf("(declare-datatypes ((Slice 0)) (((mk-Slice (s.rgn Int) (s.off %s) (s.len %s) (s.cap %s)))))", ix, ix, ix),
		fmt.Sprintf("(declare-datatypes ((Str 0)) (((mk-Str (gostr.arr (Array %s %s)) (gostr.len %s)))))", ix, s.byteSort(), ix),
		"(declare-datatypes ((Iface 0)) (((mk-Iface (if.tid Int) (if.val Int)))))",
		"(define-fun nil.Iface () Iface (mk-Iface 0 0))",
	)
	return s
}

func (s *Sorts) idxSort() string {
	if s.mode == Math {
		return "Int"
	}
	return "(_ BitVec 64)"
}

func (s *Sorts) byteSort() string {
	if s.mode == Math {
		return "Int"
	}
	return "(_ BitVec 8)"
}

func shortTypeName(n *types.Named) string {
	obj := n.Obj()
	if obj.Pkg() == nil {
		return obj.Name()
	}
	return obj.Pkg().Name() + "." + obj.Name()
}

// intInfo returns (bits, signed) for integer basic kinds.
func intInfo(b *types.Basic) (int, bool, bool) {
	switch b.Kind() {
	case types.Int8:
		return 8, true, true
	case types.Int16:
		return 16, true, true
	case types.Int32:
		return 32, true, true
	case types.Int64, types.Int:
		return 64, true, true
	case types.Uint8:
		return 8, false, true
	case types.Uint16:
		return 16, false, true
	case types.Uint32:
		return 32, false, true
	case types.Uint64, types.Uint, types.Uintptr:
		return 64, false, true
	case types.UntypedInt, types.UntypedRune:
		return 64, true, true
	}
	return 0, false, false
}

func isInt(t types.Type) (bits int, signed bool, ok bool) {
	if b, isb := t.Underlying().(*types.Basic); isb {
		return intInfo(b)
	}
	return 0, false, false
}

func isFloat(t types.Type) (bits int, ok bool) {
	if b, isb := t.Underlying().(*types.Basic); isb {
		switch b.Kind() {
		case types.Float32:
			return 32, true
		case types.Float64, types.UntypedFloat:
			return 64, true
		}
	}
	return 0, false
}

func isBool(t types.Type) bool {
	if b, isb := t.Underlying().(*types.Basic); isb {
		return b.Kind() == types.Bool || b.Kind() == types.UntypedBool
	}
	return false
}

func isString(t types.Type) bool {
	if b, isb := t.Underlying().(*types.Basic); isb {
		return b.Kind() == types.String || b.Kind() == types.UntypedString
	}
	return false
}

// sortOf returns the SMT sort of a Go type (declaring datatypes on demand).
func (s *Sorts) sortOf(t types.Type) string {
	key := t.String()
	if n, ok := s.names[key]; ok {
		return n
	}
	n := s.sortOf1(t)
	s.names[key] = n
	return n
}

func (s *Sorts) sortOf1(t types.Type) string {
	switch u := t.Underlying().(type) {
	case *types.Basic:
		if bits, _, ok := intInfo(u); ok {
			if s.mode == Math {
				return "Int"
			}
			return fmt.Sprintf("(_ BitVec %d)", bits)
		}
		switch u.Kind() {
		case types.Bool, types.UntypedBool:
			return "Bool"
		case types.Float32:
			if s.mode == Math {
				return "Real"
			}
			return "(_ FloatingPoint 8 24)"
		case types.Float64, types.UntypedFloat:
			if s.mode == Math {
				return "Real"
			}
			return "(_ FloatingPoint 11 53)"
		case types.String, types.UntypedString:
			return "Str"
		case types.UnsafePointer, types.UntypedNil:
			return "Int"
		}
	case *types.Struct:
		name := ""
		if nt, ok := t.(*types.Named); ok {
			name = shortTypeName(nt)
		} else {
			s.anon++
			name = fmt.Sprintf("anon.struct%d", s.anon)
		}
		// guard against recursion through pointers: pointers are Int so no recursion.
		var fields []string
		for i := 0; i < u.NumFields(); i++ {
			f := u.Field(i)
			fields = append(fields, fmt.Sprintf("(%s.%s %s)", name, f.Name(), s.sortOf(f.Type())))
		}
		if len(fields) == 0 {
			fields = append(fields, fmt.Sprintf("(%s.__unit Bool)", name))
		}
		s.decls = append(s.decls, fmt.Sprintf("(declare-datatypes ((%s 0)) (((mk-%s %s))))", name, name, strings.Join(fields, " ")))
		s.structs[name] = u
		s.structT[name] = t
		return name
	case *types.Array:
		return fmt.Sprintf("(Array %s %s)", s.idxSort(), s.sortOf(u.Elem()))
	case *types.Slice:
		s.memOf(u.Elem())
		return "Slice"
	case *types.Pointer:
		return "Int"
	case *types.Interface:
		return "Iface"
	case *types.Signature:
		return "Int"
	case *types.Map, *types.Chan:
		return "Int"
	case *types.Tuple:
		return "Tuple?"
	}
	return "Unsupported?" + t.String()
}

// memOf returns the name of the memory map holding slices of the given element type.
func (s *Sorts) memOf(elem types.Type) string {
	es := s.sortOf(elem)
	if n, ok := s.memSorts[es]; ok {
		return n
	}
	n := "mem." + memSuffix(elem, es)
	s.memSorts[es] = n
	return n
}

func memSuffix(elem types.Type, es string) string {
	if b, ok := elem.Underlying().(*types.Basic); ok {
		if _, isn := elem.(*types.Named); !isn || true {
			switch b.Kind() {
			case types.Uint8:
				return "u8"
			case types.Float32:
				return "f32"
			case types.Float64:
				return "f64"
			case types.Int:
				return "int"
			}
			return b.Name()
		}
	}
	if n, ok := elem.(*types.Named); ok {
		return shortTypeName(n)
	}
	r := strings.NewReplacer("(", "", ")", "", " ", "_", "_BitVec_", "bv")
	return r.Replace(es)
}

func (s *Sorts) memSort(elemSort string) string {
	return fmt.Sprintf("(Array Int (Array %s %s))", s.idxSort(), elemSort)
}

// zero returns the SMT term of the zero value of Go type t.
func (s *Sorts) zero(t types.Type) string {
	switch u := t.Underlying().(type) {
	case *types.Basic:
		if bits, _, ok := intInfo(u); ok {
			return s.intLit(big.NewInt(0), bits)
		}
		switch u.Kind() {
		case types.Bool, types.UntypedBool:
			return "false"
		case types.Float32:
			if s.mode == Math {
				return "0.0"
			}
			return "(_ +zero 8 24)"
		case types.Float64, types.UntypedFloat:
			if s.mode == Math {
				return "0.0"
			}
			return "(_ +zero 11 53)"
		case types.String, types.UntypedString:
			return fmt.Sprintf("(mk-Str ((as const (Array %s %s)) %s) %s)", s.idxSort(), s.byteSort(), s.intLit(big.NewInt(0), 8), s.intLit(big.NewInt(0), 64))
		}
		return "0"
	case *types.Struct:
		name := s.sortOf(t)
		if u.NumFields() == 0 {
			return fmt.Sprintf("(mk-%s false)", name)
		}
		var parts []string
		for i := 0; i < u.NumFields(); i++ {
			parts = append(parts, s.zero(u.Field(i).Type()))
		}
		return fmt.Sprintf("(mk-%s %s)", name, strings.Join(parts, " "))
	case *types.Array:
		return fmt.Sprintf("((as const %s) %s)", s.sortOf(t), s.zero(u.Elem()))
	case *types.Slice:
		s.sortOf(t)
		z := s.intLit(big.NewInt(0), 64)
		return fmt.Sprintf("(mk-Slice 0 %s %s %s)", z, z, z)
	case *types.Interface:
		return "(mk-Iface 0 0)"
	}
	return "0"
}

// intLit renders integer v as a literal of the given width in the current mode.
func (s *Sorts) intLit(v *big.Int, bits int) string {
	if s.mode == Math {
		if v.Sign() < 0 {
			return fmt.Sprintf("(- %s)", new(big.Int).Neg(v).String())
		}
		return v.String()
	}
	m := new(big.Int).Lsh(big.NewInt(1), uint(bits))
	w := new(big.Int).Mod(v, m)
	if bits%4 == 0 {
		return fmt.Sprintf("#x%0*s", bits/4, w.Text(16))
	}
	return fmt.Sprintf("#b%0*s", bits, w.Text(2))
}

func (s *Sorts) idxLit(v int64) string {
	return s.intLit(big.NewInt(v), 64)
}
