package main

import (
	"os"
	"path/filepath"
	"sort"
	"strings"
)

// loadLemmas reads the spec-only lemmas that count for a property.
// File format (/verif/lemmas/<mode>/*.smt2): blocks introduced by
//   ; lemma <name> [label ...] uses <spec> ... {thorough} {expect-sat} {timeout N}
// followed by raw SMT-LIB (declarations and asserts, the goal already negated).
func (eng *Engine) loadLemmas(prop, tier string) ([]*Obl, error) {
	var out []*Obl
	for _, mode := range []Mode{Bits, Math} {
		files, _ := filepath.Glob(filepath.Join(eng.verif, "lemmas", mode.String(), "*.smt2"))
		sort.Strings(files)
		for _, f := range files {
			data, err := os.ReadFile(f)
			if err != nil {
				return nil, err
			}
			var cur *Obl
			var body []string
			var uses []string
			flush := func() {
				if cur == nil {
					return
				}
				cur.Raw = strings.Join(body, "\n")
				vc := eng.newVC(eng.anyFunc(), &Contract{Mode: mode.String(), Uses: uses})
				vc.forceSpecTypes()
				cur.vc = vc
				cur.Mode = mode
				out = append(out, cur)
				cur = nil
			}
			for _, l := range strings.Split(string(data), "\n") {
				t := strings.TrimSpace(l)
				if strings.HasPrefix(t, "; lemma ") {
					flush()
					body = nil
					uses = nil
					fs := strings.Fields(strings.TrimPrefix(t, "; lemma "))
					name := fs[0]
					var labels []string
					thorough, expectSat := false, false
					timeout := 0
					inUses := false
					rest := strings.Join(fs[1:], " ")
					if i := strings.Index(rest, "["); i >= 0 {
						j := strings.Index(rest, "]")
						labels = strings.Fields(rest[i+1 : j])
						rest = rest[:i] + rest[j+1:]
					}
					toks := strings.Fields(rest)
					for k := 0; k < len(toks); k++ {
						switch toks[k] {
						case "uses":
							inUses = true
						case "thorough":
							thorough, inUses = true, false
						case "expect-sat":
							expectSat, inUses = true, false
						case "timeout":
							inUses = false
							if k+1 < len(toks) {
								for _, c := range toks[k+1] {
									timeout = timeout*10 + int(c-'0')
								}
								k++
							}
						default:
							if inUses {
								uses = append(uses, toks[k])
							}
						}
					}
					if !hasPropLabel(labels, prop) {
						continue
					}
					if thorough && tier != "thorough" {
						continue
					}
					cur = &Obl{Name: "lemma/" + name, Kind: "lemma", Labels: labels, Func: filepath.Base(f), Clause: "spec-only lemma " + name, ExpectSat: expectSat, Timeout: timeout}
					if thorough {
						cur.Tier = "thorough"
					}
					continue
				}
				if cur != nil {
					body = append(body, l)
				}
			}
			flush()
		}
	}
	return out, nil
}
