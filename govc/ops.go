package main

import (
	"fmt"
	"go/constant"
	"go/token"
	"go/types"
	"math"
	"math/big"
	"strings"

	"golang.org/x/tools/go/ssa"
)

func fpSort(bits int) (int, int) {
	if bits == 32 {
		return 8, 24
	}
	return 11, 53
}

// fpLit renders a float64 value exactly as a literal of the given width.
func (vc *VC) fpLit(v float64, bits int) string {
	if vc.mode == Math {
		return ratLit(new(big.Rat).SetFloat64(v))
	}
	if bits == 32 {
		u := math.Float32bits(float32(v))
		return fmt.Sprintf("(fp #b%d #b%08b #b%023b)", u>>31, (u>>23)&0xff, u&0x7fffff)
	}
	u := math.Float64bits(v)
	return fmt.Sprintf("(fp #b%d #b%011b #b%052b)", u>>63, (u>>52)&0x7ff, u&((1<<52)-1))
}

func ratLit(r *big.Rat) string {
	if r == nil {
		return "0.0"
	}
	neg := r.Sign() < 0
	a := new(big.Rat).Abs(r)
	var s string
	if a.IsInt() {
		s = a.Num().String() + ".0"
	} else {
		s = fmt.Sprintf("(/ %s.0 %s.0)", a.Num().String(), a.Denom().String())
	}
	if neg {
		return "(- " + s + ")"
	}
	return s
}

func (vc *VC) constSV(c *ssa.Const) SV {
	t := c.Type()
	sv := SV{Typ: t}
	if c.Value == nil {
		// zero value / nil
		switch t.Underlying().(type) {
		case *types.Pointer, *types.Signature, *types.Map, *types.Chan:
			sv.T = "0"
		default:
			sv.T = vc.S.zero(t)
		}
		if _, ok := t.Underlying().(*types.Slice); ok {
			sv.SLen = 1
		}
		return sv
	}
	if bits, _, ok := isInt(t); ok {
		v, _ := new(big.Int).SetString(c.Value.ExactString(), 10)
		if v == nil {
			// e.g. rune constants
			if i64, ok := constant.Int64Val(constant.ToInt(c.Value)); ok {
				v = big.NewInt(i64)
			} else {
				v = big.NewInt(0)
			}
		}
		sv.T = vc.S.intLit(v, bits)
		return sv
	}
	if bits, ok := isFloat(t); ok {
		if vc.mode == Math {
			r, _ := new(big.Rat).SetString(c.Value.ExactString())
			sv.T = ratLit(r)
			return sv
		}
		if bits == 32 {
			f, _ := constant.Float32Val(c.Value)
			sv.T = vc.fpLit(float64(f), 32)
		} else {
			f, _ := constant.Float64Val(c.Value)
			sv.T = vc.fpLit(f, 64)
		}
		return sv
	}
	if isBool(t) {
		if constant.BoolVal(c.Value) {
			sv.T = "true"
		} else {
			sv.T = "false"
		}
		return sv
	}
	if isString(t) {
		sv.T = vc.strConst(constant.StringVal(c.Value))
		return sv
	}
	vc.unsupported(token.NoPos, "constant of type %s", t)
	sv.T = vc.decl("const", vc.S.sortOf(t))
	return sv
}

// strConst interns a string constant as a named Str value.
func (vc *VC) strConst(s string) string {
	if id, ok := vc.strIDs[s]; ok {
		return fmt.Sprintf("str!%d", id)
	}
	id := len(vc.strIDs) + 1
	vc.strIDs[s] = id
	name := fmt.Sprintf("str!%d", id)
	arr := fmt.Sprintf("((as const (Array %s %s)) %s)", vc.S.idxSort(), vc.S.byteSort(), vc.S.intLit(big.NewInt(0), 8))
	n := len(s)
	if n > 64 {
		n = 64 // contents beyond 64 bytes are left as zero; such strings are only passed to fmt
	}
	for i := 0; i < n; i++ {
		arr = fmt.Sprintf("(store %s %s %s)", arr, vc.S.idxLit(int64(i)), vc.S.intLit(big.NewInt(int64(s[i])), 8))
	}
	vc.prependDecl(fmt.Sprintf("(define-fun %s () Str (mk-Str %s %s)) ; %q", name, arr, vc.S.idxLit(int64(len(s))), truncStr(s, 40)))
	return name
}

func truncStr(s string, n int) string {
	if len(s) > n {
		return s[:n] + "..."
	}
	return s
}

// goEq builds Go's == on two values of type t.
func (vc *VC) goEq(t types.Type, a, b string) string {
	switch u := t.Underlying().(type) {
	case *types.Basic:
		if _, ok := isFloat(t); ok && vc.mode == Bits {
			return fmt.Sprintf("(fp.eq %s %s)", a, b)
		}
		if isString(t) {
			return fmt.Sprintf("(gostr.equal %s %s)", a, b)
		}
	case *types.Struct:
		if !hasFloatOrArray(t) {
			return fmt.Sprintf("(= %s %s)", a, b)
		}
		name := vc.S.sortOf(t)
		var parts []string
		for i := 0; i < u.NumFields(); i++ {
			f := u.Field(i)
			parts = append(parts, vc.goEq(f.Type(), fmt.Sprintf("(%s.%s %s)", name, f.Name(), a), fmt.Sprintf("(%s.%s %s)", name, f.Name(), b)))
		}
		return and(parts...)
	case *types.Array:
		var parts []string
		for i := int64(0); i < u.Len(); i++ {
			ix := vc.S.idxLit(i)
			parts = append(parts, vc.goEq(u.Elem(), fmt.Sprintf("(select %s %s)", a, ix), fmt.Sprintf("(select %s %s)", b, ix)))
		}
		return and(parts...)
	}
	return fmt.Sprintf("(= %s %s)", a, b)
}

func hasFloatOrArray(t types.Type) bool {
	switch u := t.Underlying().(type) {
	case *types.Basic:
		_, ok := isFloat(t)
		return ok || isString(t)
	case *types.Struct:
		for i := 0; i < u.NumFields(); i++ {
			if hasFloatOrArray(u.Field(i).Type()) {
				return true
			}
		}
	case *types.Array:
		return true
	}
	return false
}

// wrap reduces a math-mode integer term to the range of the Go type.
func (vc *VC) wrap(term string, bits int, signed bool) string {
	m := new(big.Int).Lsh(big.NewInt(1), uint(bits)).String()
	if !signed {
		return fmt.Sprintf("(mod %s %s)", term, m)
	}
	h := new(big.Int).Lsh(big.NewInt(1), uint(bits-1)).String()
	if bits == 64 {
		// same value, spelled so that the in-range case (the one that matters) needs no modular reasoning
		return fmt.Sprintf("(ite (and (<= (- %s) %s) (< %s %s)) %s (- (mod (+ %s %s) %s) %s))", h, term, term, h, term, term, h, m, h)
	}
	return fmt.Sprintf("(- (mod (+ %s %s) %s) %s)", term, h, m, h)
}

func (vc *VC) binop(pos token.Pos, op token.Token, x, y SV, xt, yt, rt types.Type, pc string) SV {
	res := SV{Typ: rt}
	a, b := x.T, y.T
	if a == "" {
		a = vc.ptrTerm(x)
	}
	if b == "" {
		b = vc.ptrTerm(y)
	}
	// comparisons
	switch op {
	case token.EQL, token.NEQ:
		if a == b && numRe.MatchString(a) {
			res.T = "true"
			if op == token.NEQ {
				res.T = "false"
			}
			return res
		}
		if va, oka := bvLit(a); oka {
			if vb, okb := bvLit(b); okb && len(a) == len(b) {
				eq := va.Cmp(vb) == 0
				if (op == token.EQL) == eq {
					res.T = "true"
				} else {
					res.T = "false"
				}
				return res
			}
		}
		if op == token.EQL {
			res.T = vc.goEq(xt, a, b)
		} else {
			res.T = not(vc.goEq(xt, a, b))
		}
		return res
	}
	if isBool(xt) {
		switch op {
		case token.LAND, token.AND:
			res.T = and(a, b)
		case token.LOR, token.OR:
			res.T = or(a, b)
		default:
			vc.unsupported(pos, "boolean op %s", op)
			res.T = vc.decl("b", "Bool")
		}
		return res
	}
	if isString(xt) {
		if op == token.ADD {
			res.T = vc.decl("strcat", "Str")
			vc.assumeWF("true", res.T, rt, nil, 0)
			return res
		}
		vc.unsupported(pos, "string op %s", op)
		res.T = vc.decl("s", vc.S.sortOf(rt))
		return res
	}
	if fb, ok := isFloat(xt); ok {
		_ = fb
		if vc.mode == Math {
			switch op {
			case token.ADD:
				res.T = fmt.Sprintf("(+ %s %s)", a, b)
			case token.SUB:
				res.T = fmt.Sprintf("(- %s %s)", a, b)
			case token.MUL:
				res.T = fmt.Sprintf("(* %s %s)", a, b)
			case token.QUO:
				res.T = fmt.Sprintf("(/ %s %s)", a, b)
			case token.LSS:
				res.T = fmt.Sprintf("(< %s %s)", a, b)
			case token.LEQ:
				res.T = fmt.Sprintf("(<= %s %s)", a, b)
			case token.GTR:
				res.T = fmt.Sprintf("(> %s %s)", a, b)
			case token.GEQ:
				res.T = fmt.Sprintf("(>= %s %s)", a, b)
			default:
				vc.unsupported(pos, "float op %s", op)
				res.T = vc.decl("f", vc.S.sortOf(rt))
			}
			return res
		}
		switch op {
		case token.ADD:
			res.T = fmt.Sprintf("(fp.add RNE %s %s)", a, b)
		case token.SUB:
			res.T = fmt.Sprintf("(fp.sub RNE %s %s)", a, b)
		case token.MUL:
			res.T = fmt.Sprintf("(fp.mul RNE %s %s)", a, b)
		case token.QUO:
			res.T = fmt.Sprintf("(fp.div RNE %s %s)", a, b)
		case token.LSS:
			res.T = fmt.Sprintf("(fp.lt %s %s)", a, b)
		case token.LEQ:
			res.T = fmt.Sprintf("(fp.leq %s %s)", a, b)
		case token.GTR:
			res.T = fmt.Sprintf("(fp.gt %s %s)", a, b)
		case token.GEQ:
			res.T = fmt.Sprintf("(fp.geq %s %s)", a, b)
		default:
			vc.unsupported(pos, "float op %s", op)
			res.T = vc.decl("f", vc.S.sortOf(rt))
		}
		return res
	}
	bits, signed, ok := isInt(xt)
	if !ok {
		vc.unsupported(pos, "binary op %s on %s", op, xt)
		res.T = vc.decl("v", vc.S.sortOf(rt))
		return res
	}
	if vc.mode == Math {
		return vc.binopMath(pos, op, a, b, bits, signed, yt, rt, pc, y)
	}
	if folded, ok := foldBV(op, a, b, bits, signed); ok {
		res.T = folded
		return res
	}
	sel := func(s, u string) string {
		if signed {
			return s
		}
		return u
	}
	switch op {
	case token.ADD:
		res.T = fmt.Sprintf("(bvadd %s %s)", a, b)
	case token.SUB:
		res.T = fmt.Sprintf("(bvsub %s %s)", a, b)
	case token.MUL:
		res.T = fmt.Sprintf("(bvmul %s %s)", a, b)
	case token.QUO:
		vc.safety(pos, pc, "div", not(fmt.Sprintf("(= %s %s)", b, vc.S.intLit(big.NewInt(0), bits))), "integer division by zero")
		res.T = fmt.Sprintf("(%s %s %s)", sel("bvsdiv", "bvudiv"), a, b)
	case token.REM:
		vc.safety(pos, pc, "div", not(fmt.Sprintf("(= %s %s)", b, vc.S.intLit(big.NewInt(0), bits))), "integer division by zero")
		res.T = fmt.Sprintf("(%s %s %s)", sel("bvsrem", "bvurem"), a, b)
	case token.AND:
		res.T = fmt.Sprintf("(bvand %s %s)", a, b)
	case token.OR:
		res.T = fmt.Sprintf("(bvor %s %s)", a, b)
	case token.XOR:
		res.T = fmt.Sprintf("(bvxor %s %s)", a, b)
	case token.AND_NOT:
		res.T = fmt.Sprintf("(bvand %s (bvnot %s))", a, b)
	case token.SHL, token.SHR:
		cb, csigned, _ := isInt(yt)
		cnt := b
		if csigned {
			vc.safety(pos, pc, "shift", fmt.Sprintf("(bvsge %s %s)", b, vc.S.intLit(big.NewInt(0), cb)), "negative shift count")
		}
		shop := "bvshl"
		if op == token.SHR {
			shop = sel("bvashr", "bvlshr")
		}
		switch {
		case cb == bits:
		case cb < bits:
			cnt = fmt.Sprintf("((_ zero_extend %d) %s)", bits-cb, b)
		default:
			// wider count: saturate at the operand width
			big1 := fmt.Sprintf("(bvuge %s %s)", b, vc.S.intLit(big.NewInt(int64(bits)), cb))
			cnt = fmt.Sprintf("(ite %s %s ((_ extract %d 0) %s))", big1, vc.S.intLit(big.NewInt(int64(bits)), bits), bits-1, b)
		}
		res.T = fmt.Sprintf("(%s %s %s)", shop, a, cnt)
	case token.LSS:
		res.T = fmt.Sprintf("(%s %s %s)", sel("bvslt", "bvult"), a, b)
	case token.LEQ:
		res.T = fmt.Sprintf("(%s %s %s)", sel("bvsle", "bvule"), a, b)
	case token.GTR:
		res.T = fmt.Sprintf("(%s %s %s)", sel("bvsgt", "bvugt"), a, b)
	case token.GEQ:
		res.T = fmt.Sprintf("(%s %s %s)", sel("bvsge", "bvuge"), a, b)
	default:
		vc.unsupported(pos, "integer op %s", op)
		res.T = vc.decl("v", vc.S.sortOf(rt))
	}
	return res
}

func pow2(k int64) string {
	return new(big.Int).Lsh(big.NewInt(1), uint(k)).String()
}

// litInt parses a math-mode integer literal term.
func litInt(s string) (int64, bool) {
	var v int64
	if _, err := fmt.Sscanf(s, "%d", &v); err == nil && fmt.Sprintf("%d", v) == s {
		return v, true
	}
	return 0, false
}

func (vc *VC) binopMath(pos token.Pos, op token.Token, a, b string, bits int, signed bool, yt, rt types.Type, pc string, y SV) SV {
	res := SV{Typ: rt}
	switch op {
	case token.ADD:
		res.T = vc.wrap(fmt.Sprintf("(+ %s %s)", a, b), bits, signed)
	case token.SUB:
		res.T = vc.wrap(fmt.Sprintf("(- %s %s)", a, b), bits, signed)
	case token.MUL:
		res.T = vc.wrap(fmt.Sprintf("(* %s %s)", a, b), bits, signed)
	case token.QUO:
		vc.safety(pos, pc, "div", not(fmt.Sprintf("(= %s 0)", b)), "integer division by zero")
		if signed {
			// truncated division
			res.T = fmt.Sprintf("(ite (>= %s 0) (div %s %s) (- (div (- %s) %s)))", a, a, b, a, b)
			res.T = vc.wrap(res.T, bits, signed)
		} else {
			res.T = fmt.Sprintf("(div %s %s)", a, b)
		}
	case token.REM:
		vc.safety(pos, pc, "div", not(fmt.Sprintf("(= %s 0)", b)), "integer division by zero")
		if signed {
			res.T = fmt.Sprintf("(ite (>= %s 0) (mod %s %s) (- (mod (- %s) %s)))", a, a, b, a, b)
		} else {
			res.T = fmt.Sprintf("(mod %s %s)", a, b)
		}
	case token.LSS:
		res.T = fmt.Sprintf("(< %s %s)", a, b)
	case token.LEQ:
		res.T = fmt.Sprintf("(<= %s %s)", a, b)
	case token.GTR:
		res.T = fmt.Sprintf("(> %s %s)", a, b)
	case token.GEQ:
		res.T = fmt.Sprintf("(>= %s %s)", a, b)
	case token.AND:
		// mask with 2^k-1 only
		if k, ok := litInt(b); ok && k >= 0 && (k+1)&k == 0 {
			// x & (2^k - 1) is x mod 2^k, for two's complement negatives too (SMT mod is non-negative)
			res.T = fmt.Sprintf("(mod %s %d)", a, k+1)
		} else if k, ok := litInt(a); ok && k >= 0 && (k+1)&k == 0 {
			res.T = fmt.Sprintf("(mod %s %d)", b, k+1)
		} else if k, ok := litInt(b); ok && k > 0 && k&(k-1) == 0 && !signed {
			// single bit test: ((a div k) mod 2) * k
			res.T = fmt.Sprintf("(* (mod (div %s %d) 2) %d)", a, k, k)
		} else {
			vc.unsupported(pos, "math mode: bitwise and with non-mask operand")
			res.T = vc.decl("v", "Int")
		}
	case token.SHL:
		if k, ok := litInt(b); ok && k >= 0 && k < 64 {
			res.T = vc.wrap(fmt.Sprintf("(* %s %s)", a, pow2(k)), bits, signed)
		} else {
			vc.unsupported(pos, "math mode: shift by non-constant")
			res.T = vc.decl("v", "Int")
		}
	case token.SHR:
		if k, ok := litInt(b); ok && k >= 0 && k < 64 {
			res.T = fmt.Sprintf("(div %s %s)", a, pow2(k))
		} else {
			vc.unsupported(pos, "math mode: shift by non-constant")
			res.T = vc.decl("v", "Int")
		}
	case token.OR:
		// a | b with disjoint constant masks is not recognised; only (x | 2^k-bits) patterns with b literal and a multiple of a larger power
		vc.unsupported(pos, "math mode: bitwise or")
		res.T = vc.decl("v", "Int")
	default:
		vc.unsupported(pos, "math mode: integer op %s", op)
		res.T = vc.decl("v", "Int")
	}
	return res
}

func (vc *VC) unop(pos token.Pos, op token.Token, x SV, t types.Type) SV {
	res := SV{Typ: t}
	switch op {
	case token.NOT:
		res.T = not(x.T)
	case token.SUB:
		if _, ok := isFloat(t); ok {
			if vc.mode == Math {
				res.T = fmt.Sprintf("(- %s)", x.T)
			} else {
				res.T = fmt.Sprintf("(fp.neg %s)", x.T)
			}
		} else if bits, signed, ok := isInt(t); ok {
			if vc.mode == Math {
				res.T = vc.wrap(fmt.Sprintf("(- %s)", x.T), bits, signed)
			} else {
				res.T = fmt.Sprintf("(bvneg %s)", x.T)
			}
		}
	case token.XOR:
		if bits, signed, ok := isInt(t); ok {
			if vc.mode == Math {
				if signed {
					res.T = fmt.Sprintf("(- (- %s) 1)", x.T)
				} else {
					res.T = fmt.Sprintf("(- %s %s)", new(big.Int).Sub(new(big.Int).Lsh(big.NewInt(1), uint(bits)), big.NewInt(1)).String(), x.T)
				}
			} else {
				res.T = fmt.Sprintf("(bvnot %s)", x.T)
			}
		}
	default:
		vc.unsupported(pos, "unary op %s", op)
	}
	if res.T == "" {
		vc.unsupported(pos, "unary op %s on %s", op, t)
		res.T = vc.decl("v", vc.S.sortOf(t))
	}
	return res
}

// convert implements Go's numeric conversions.
func (vc *VC) convert(pos token.Pos, x SV, from, to types.Type) SV {
	res := SV{Typ: to}
	fb, fsigned, fromInt := isInt(from)
	tb, tsigned, toInt := isInt(to)
	ffb, fromFloat := isFloat(from)
	tfb, toFloat := isFloat(to)
	switch {
	case fromInt && toInt:
		if vc.mode == Math {
			res.T = x.T
			lo, hi := intRange(tb, tsigned)
			_ = lo
			_ = hi
			if !(fb < tb && (!fsigned || tsigned)) && !(fb == tb && fsigned == tsigned) {
				res.T = vc.wrap(x.T, tb, tsigned)
			}
			return res
		}
		switch {
		case tb == fb:
			res.T = x.T
		case tb < fb:
			res.T = fmt.Sprintf("((_ extract %d 0) %s)", tb-1, x.T)
		case fsigned:
			res.T = fmt.Sprintf("((_ sign_extend %d) %s)", tb-fb, x.T)
		default:
			res.T = fmt.Sprintf("((_ zero_extend %d) %s)", tb-fb, x.T)
		}
	case fromInt && toFloat:
		if vc.mode == Math {
			res.T = fmt.Sprintf("(to_real %s)", x.T)
			vc.assum["math mode: integer to float conversion exact"] = true
			return res
		}
		e, m := fpSort(tfb)
		if fsigned {
			res.T = fmt.Sprintf("((_ to_fp %d %d) RNE %s)", e, m, x.T)
		} else {
			res.T = fmt.Sprintf("((_ to_fp_unsigned %d %d) RNE %s)", e, m, x.T)
		}
	case fromFloat && toFloat:
		if vc.mode == Math || ffb == tfb {
			res.T = x.T
			return res
		}
		e, m := fpSort(tfb)
		res.T = fmt.Sprintf("((_ to_fp %d %d) RNE %s)", e, m, x.T)
	case fromFloat && toInt:
		if vc.mode == Math {
			// truncation toward zero; out-of-range values unconstrained
			lo, hi := intRange(tb, tsigned)
			tr := fmt.Sprintf("(ite (>= %s 0.0) (to_int %s) (- (to_int (- %s))))", x.T, x.T, x.T)
			any := vc.decl("cvt", "Int")
			vc.assume("true", fmt.Sprintf("(and (<= %s %s) (<= %s %s))", lo, any, any, hi))
			res.T = fmt.Sprintf("(ite (and (<= %s %s) (<= %s %s)) %s %s)", lo, tr, tr, hi, tr, any)
			return res
		}
		inr := vc.fpInRange(x.T, ffb, tb, tsigned)
		var cv string
		if tsigned {
			cv = fmt.Sprintf("((_ fp.to_sbv %d) RTZ %s)", tb, x.T)
		} else {
			cv = fmt.Sprintf("((_ fp.to_ubv %d) RTZ %s)", tb, x.T)
		}
		var other string
		if vc.con != nil && vc.con.Arch == "amd64" {
			other = vc.amd64Conv(x.T, ffb, tb, tsigned)
			vc.assum["arch amd64: float-to-integer conversion of unrepresentable values follows SSE (CVTTSS2SQ/CVTTSD2SQ)"] = true
		} else {
			other = vc.decl("cvt", vc.S.sortOf(to))
		}
		res.T = fmt.Sprintf("(ite %s %s %s)", inr, cv, other)
	default:
		if isString(to) || isString(from) {
			// string <-> []byte / rune conversions: contents unconstrained
			res.T = vc.decl("strconv", vc.S.sortOf(to))
			vc.assumeWF("true", res.T, to, vc.top.entrySt, 0)
			return res
		}
		vc.unsupported(pos, "conversion %s -> %s", from, to)
		res.T = vc.decl("cv", vc.S.sortOf(to))
	}
	return res
}

// fpInRange: the float x (ffb bits) truncates to a value representable in the integer type.
func (vc *VC) fpInRange(x string, ffb, tb int, tsigned bool) string {
	e, m := fpSort(ffb)
	lit := func(v *big.Float) string {
		f64, _ := v.Float64()
		return vc.fpLit(f64, ffb)
	}
	_ = e
	upper := new(big.Float).SetMantExp(big.NewFloat(1), tb) // 2^tb
	var lo string
	if !tsigned {
		lo = fmt.Sprintf("(fp.gt %s %s)", x, vc.fpLit(-1, ffb))
	} else {
		upper = new(big.Float).SetMantExp(big.NewFloat(1), tb-1)
		minv := new(big.Float).Neg(new(big.Float).SetMantExp(big.NewFloat(1), tb-1))
		if tb <= m-1 {
			// -2^(tb-1)-1 is exactly representable
			ex := new(big.Float).Sub(minv, big.NewFloat(1))
			lo = fmt.Sprintf("(fp.gt %s %s)", x, lit(ex))
		} else {
			lo = fmt.Sprintf("(fp.geq %s %s)", x, lit(minv))
		}
	}
	return fmt.Sprintf("(and %s (fp.lt %s %s))", lo, x, lit(upper))
}

// amd64Conv models gc/amd64 for unrepresentable float->int conversions: the 64-bit "integer indefinite"
// value 0x8000000000000000 truncated to the destination width (unsigned 64-bit uses a different sequence and is left unconstrained).
func (vc *VC) amd64Conv(x string, ffb, tb int, tsigned bool) string {
	if tb == 64 && !tsigned {
		return vc.decl("cvt", "(_ BitVec 64)")
	}
	// CVTTSx2SQ computes a 64-bit signed result; in range for int64 it is exact, else indefinite.
	in64 := vc.fpInRange(x, ffb, 64, true)
	wide := fmt.Sprintf("(ite %s ((_ fp.to_sbv 64) RTZ %s) #x8000000000000000)", in64, x)
	if tb == 64 {
		return wide
	}
	return fmt.Sprintf("((_ extract %d 0) %s)", tb-1, wide)
}

// mathIntrinsic models selected functions of package math. ok=false if not modelled.
func (vc *VC) mathIntrinsic(name string, args []SV, rt types.Type) (SV, bool) {
	res := SV{Typ: rt}
	a := func(i int) string { return args[i].T }
	if vc.mode == Math {
		switch name {
		case "math.Float32bits", "math.Float32frombits", "math.Float64bits", "math.Float64frombits":
			return res, false
		case "math.Floor":
			res.T = fmt.Sprintf("(to_real (to_int %s))", a(0))
		case "math.Ceil":
			res.T = fmt.Sprintf("(- (to_real (to_int (- %s))))", a(0))
		case "math.Abs":
			res.T = fmt.Sprintf("(ite (>= %s 0.0) %s (- %s))", a(0), a(0), a(0))
		case "math.Sqrt":
			r := vc.decl("sqrt", "Real")
			vc.assume("true", fmt.Sprintf("(=> (>= %s 0.0) (and (>= %s 0.0) (= (* %s %s) %s)))", a(0), r, r, r, a(0)))
			res.T = r
		case "math.Sin":
			res.T = fmt.Sprintf("(u.sin %s)", a(0))
			vc.uses["trig"] = true
		case "math.Cos":
			res.T = fmt.Sprintf("(u.cos %s)", a(0))
			vc.uses["trig"] = true
		case "math.Acos":
			res.T = fmt.Sprintf("(u.acos %s)", a(0))
			vc.uses["trig"] = true
			// range of the arc cosine: [0, pi]; the upper bound is pi rounded up in the 62nd digit
			vc.assume("true", fmt.Sprintf("(and (<= 0.0 %s) (<= %s 3.1415926535897932384626433832795028841971693993751058209749446))", res.T, res.T))
		default:
			return res, false
		}
		return res, true
	}
	switch name {
	case "math.Float32bits":
		// NaN payloads: to_ieee_bv is not available everywhere; use a fresh bv tied by to_fp.
		bv := vc.decl("f32bits", "(_ BitVec 32)")
		vc.assume("true", fmt.Sprintf("(= ((_ to_fp 8 24) %s) %s)", bv, a(0)))
		res.T = bv
	case "math.Float64bits":
		bv := vc.decl("f64bits", "(_ BitVec 64)")
		vc.assume("true", fmt.Sprintf("(= ((_ to_fp 11 53) %s) %s)", bv, a(0)))
		res.T = bv
	case "math.Float32frombits":
		res.T = fmt.Sprintf("((_ to_fp 8 24) %s)", a(0))
	case "math.Float64frombits":
		res.T = fmt.Sprintf("((_ to_fp 11 53) %s)", a(0))
	case "math.Floor":
		res.T = fmt.Sprintf("(fp.roundToIntegral RTN %s)", a(0))
	case "math.Ceil":
		res.T = fmt.Sprintf("(fp.roundToIntegral RTP %s)", a(0))
	case "math.Abs":
		res.T = fmt.Sprintf("(fp.abs %s)", a(0))
	case "math.Sqrt":
		res.T = fmt.Sprintf("(fp.sqrt RNE %s)", a(0))
	default:
		return res, false
	}
	return res, true
}

var _ = strings.Contains

// bvLit parses a #x / #b bit-vector literal.
func bvLit(s string) (*big.Int, bool) {
	if strings.HasPrefix(s, "#x") {
		v, ok := new(big.Int).SetString(s[2:], 16)
		return v, ok
	}
	if strings.HasPrefix(s, "#b") {
		v, ok := new(big.Int).SetString(s[2:], 2)
		return v, ok
	}
	return nil, false
}

func bvFmt(v *big.Int, bits int) string {
	m := new(big.Int).Lsh(big.NewInt(1), uint(bits))
	w := new(big.Int).Mod(v, m)
	if bits%4 == 0 {
		return fmt.Sprintf("#x%0*s", bits/4, w.Text(16))
	}
	return fmt.Sprintf("#b%0*s", bits, w.Text(2))
}

func toSigned(v *big.Int, bits int) *big.Int {
	h := new(big.Int).Lsh(big.NewInt(1), uint(bits-1))
	if v.Cmp(h) >= 0 {
		return new(big.Int).Sub(v, new(big.Int).Lsh(big.NewInt(1), uint(bits)))
	}
	return v
}

// foldBV folds an integer operation on two literals of the same width.
func foldBV(op token.Token, a, b string, bits int, signed bool) (string, bool) {
	va, oka := bvLit(a)
	vb, okb := bvLit(b)
	if !oka || !okb || len(a) != len(b) {
		return "", false
	}
	boolS := func(x bool) (string, bool) {
		if x {
			return "true", true
		}
		return "false", true
	}
	ca, cb := va, vb
	if signed {
		ca, cb = toSigned(va, bits), toSigned(vb, bits)
	}
	switch op {
	case token.ADD:
		return bvFmt(new(big.Int).Add(va, vb), bits), true
	case token.SUB:
		return bvFmt(new(big.Int).Sub(va, vb), bits), true
	case token.MUL:
		return bvFmt(new(big.Int).Mul(va, vb), bits), true
	case token.AND:
		return bvFmt(new(big.Int).And(va, vb), bits), true
	case token.OR:
		return bvFmt(new(big.Int).Or(va, vb), bits), true
	case token.XOR:
		return bvFmt(new(big.Int).Xor(va, vb), bits), true
	case token.LSS:
		return boolS(ca.Cmp(cb) < 0)
	case token.LEQ:
		return boolS(ca.Cmp(cb) <= 0)
	case token.GTR:
		return boolS(ca.Cmp(cb) > 0)
	case token.GEQ:
		return boolS(ca.Cmp(cb) >= 0)
	}
	return "", false
}
