package main

import (
	"fmt"
	"strings"
)

// Sexp is a parsed s-expression: either an atom or a list.
type Sexp struct {
	Atom string
	List []*Sexp
	IsL  bool
}

func (s *Sexp) String() string {
	if !s.IsL {
		return s.Atom
	}
	parts := make([]string, len(s.List))
	for i, c := range s.List {
		parts[i] = c.String()
	}
	return "(" + strings.Join(parts, " ") + ")"
}

func (s *Sexp) Head() string {
	if s.IsL && len(s.List) > 0 && !s.List[0].IsL {
		return s.List[0].Atom
	}
	return ""
}

// parseSexps parses all s-expressions in src.
func parseSexps(src string) ([]*Sexp, error) {
	p := &sexpParser{src: src}
	var out []*Sexp
	for {
		p.skip()
		if p.pos >= len(p.src) {
			return out, nil
		}
		s, err := p.parse()
		if err != nil {
			return nil, err
		}
		out = append(out, s)
	}
}

func parseSexp(src string) (*Sexp, error) {
	l, err := parseSexps(src)
	if err != nil {
		return nil, err
	}
	if len(l) != 1 {
		return nil, fmt.Errorf("expected exactly one s-expression, got %d in %q", len(l), src)
	}
	return l[0], nil
}

type sexpParser struct {
	src string
	pos int
}

func (p *sexpParser) skip() {
	for p.pos < len(p.src) {
		c := p.src[p.pos]
		if c == ' ' || c == '\t' || c == '\n' || c == '\r' {
			p.pos++
		} else if c == ';' {
			for p.pos < len(p.src) && p.src[p.pos] != '\n' {
				p.pos++
			}
		} else {
			return
		}
	}
}

func (p *sexpParser) parse() (*Sexp, error) {
	p.skip()
	if p.pos >= len(p.src) {
		return nil, fmt.Errorf("unexpected end of input")
	}
	c := p.src[p.pos]
	switch {
	case c == '(':
		p.pos++
		s := &Sexp{IsL: true}
		for {
			p.skip()
			if p.pos >= len(p.src) {
				return nil, fmt.Errorf("unbalanced parentheses")
			}
			if p.src[p.pos] == ')' {
				p.pos++
				return s, nil
			}
			ch, err := p.parse()
			if err != nil {
				return nil, err
			}
			s.List = append(s.List, ch)
		}
	case c == ')':
		return nil, fmt.Errorf("unexpected ')' at %d", p.pos)
	case c == '|':
		start := p.pos
		p.pos++
		for p.pos < len(p.src) && p.src[p.pos] != '|' {
			p.pos++
		}
		p.pos++
		return &Sexp{Atom: p.src[start:p.pos]}, nil
	case c == '"':
		start := p.pos
		p.pos++
		for p.pos < len(p.src) && p.src[p.pos] != '"' {
			p.pos++
		}
		p.pos++
		return &Sexp{Atom: p.src[start:p.pos]}, nil
	default:
		start := p.pos
		depth := 0
		for p.pos < len(p.src) {
			c := p.src[p.pos]
			// allow bracketed index expressions inside atoms: a[i+1].f
			if c == '[' {
				depth++
			} else if c == ']' {
				depth--
			} else if depth == 0 && (c == ' ' || c == '\t' || c == '\n' || c == '\r' || c == '(' || c == ')' || c == ';') {
				break
			}
			p.pos++
		}
		return &Sexp{Atom: p.src[start:p.pos]}, nil
	}
}

// balance returns the paren depth of s (ignoring strings/comments minimalistically).
func parenBalance(s string) int {
	d := 0
	for i := 0; i < len(s); i++ {
		switch s[i] {
		case '(':
			d++
		case ')':
			d--
		}
	}
	return d
}
