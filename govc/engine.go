package main

import (
	"fmt"
	"go/token"
	"go/types"
	"os"
	"path/filepath"
	"sort"
	"strings"

	"golang.org/x/tools/go/packages"
	"golang.org/x/tools/go/ssa"
	"golang.org/x/tools/go/ssa/ssautil"
)

// Engine holds the loaded program and contracts.
type Engine struct {
	repo      string
	verif     string
	fset      *token.FileSet
	prog      *ssa.Program
	pkgs      []*packages.Package
	spkgs     map[string]*ssa.Package // by import path
	funcs     map[string]*ssa.Function // by full String()
	allFuncs  []*ssa.Function
	addrTaken []*ssa.Function
	cs        *ContractSet
	effects   map[*ssa.Function]*Effects
	candCache map[string][]*ssa.Function
	fnIDs     map[string]int
	tidIDs    map[string]int
	tidNames  map[int]string
	acApplied map[string]bool   // at-call clauses (file:line) that produced an obligation in some case of their function
	monSorts  map[string]string // monitor ghost name -> sort
	monIface  map[string]string // monitor ghost name -> interface short name
	monMode   map[string]string // monitor ghost name -> mode it is defined for
	monLib    map[string]string // monitor ghost name -> spec library that defines it (active only in VCs using that library)
	ifaceByShort map[string]types.Type
	specCache map[string]string
	modPath   string
	loadSecs  float64
	tier      string
}

func loadEngine(repo, verif string) (*Engine, error) {
	eng := &Engine{repo: repo, verif: verif, spkgs: map[string]*ssa.Package{}, funcs: map[string]*ssa.Function{},
		effects: map[*ssa.Function]*Effects{}, candCache: map[string][]*ssa.Function{}, fnIDs: map[string]int{},
		tidIDs: map[string]int{}, tidNames: map[int]string{}, acApplied: map[string]bool{}, monSorts: map[string]string{}, monIface: map[string]string{},
		ifaceByShort: map[string]types.Type{}, specCache: map[string]string{}, monMode: map[string]string{}, monLib: map[string]string{}}
	eng.modPath = modulePath(repo)
	cfg := &packages.Config{Mode: packages.LoadAllSyntax, Dir: repo, BuildFlags: []string{"-tags=verif"}, Tests: false,
		Env: append(os.Environ(), "GOFLAGS=-mod=mod", "GOPROXY=off", "GOSUMDB=off", "GOTOOLCHAIN=local")}
	pkgs, err := packages.Load(cfg, "./...")
	if err != nil {
		return nil, err
	}
	nerr := 0
	packages.Visit(pkgs, nil, func(p *packages.Package) {
		for _, e := range p.Errors {
			if strings.HasPrefix(p.PkgPath, eng.modPath) {
				fmt.Fprintf(os.Stderr, "load error: %s: %v\n", p.PkgPath, e)
				nerr++
			}
		}
	})
	if nerr > 0 {
		return nil, fmt.Errorf("%d package load errors (the tree does not type-check)", nerr)
	}
	eng.pkgs = pkgs
	if len(pkgs) > 0 {
		eng.fset = pkgs[0].Fset
	}
	prog, _ := ssautil.AllPackages(pkgs, ssa.InstantiateGenerics|ssa.GlobalDebug)
	prog.Build()
	eng.prog = prog
	for _, p := range prog.AllPackages() {
		eng.spkgs[p.Pkg.Path()] = p
	}
	fns := ssautil.AllFunctions(prog)
	for f := range fns {
		eng.funcs[f.String()] = f
		eng.allFuncs = append(eng.allFuncs, f)
	}
	sort.Slice(eng.allFuncs, func(i, j int) bool { return eng.allFuncs[i].String() < eng.allFuncs[j].String() })
	for _, f := range eng.allFuncs {
		if _, ok := eng.fnIDs[f.String()]; !ok {
			eng.fnIDs[f.String()] = len(eng.fnIDs) + 1
		}
	}
	// address-taken functions of the module (used as values)
	taken := map[*ssa.Function]bool{}
	for _, f := range eng.allFuncs {
		if f.Pkg == nil || !strings.HasPrefix(f.Pkg.Pkg.Path(), eng.modPath) {
			continue
		}
		for _, b := range f.Blocks {
			for _, ins := range b.Instrs {
				if _, isDbg := ins.(*ssa.DebugRef); isDbg {
					continue
				}
				var ops []*ssa.Value
				ops = ins.Operands(ops)
				for k, op := range ops {
					if op == nil || *op == nil {
						continue
					}
					fn, ok := (*op).(*ssa.Function)
					if !ok {
						continue
					}
					if ci, isCall := ins.(ssa.CallInstruction); isCall && k == 0 && ci.Common().Value == fn && !ci.Common().IsInvoke() {
						continue // direct call
					}
					if fn.Synthetic != "" && len(fn.Blocks) > 0 {
						// thunk / bound method wrapper: record the wrapper itself
					}
					taken[fn] = true
				}
			}
		}
	}
	seenName := map[string]bool{}
	for f := range taken {
		if seenName[f.String()] {
			continue
		}
		seenName[f.String()] = true
		eng.addrTaken = append(eng.addrTaken, f)
	}
	sort.Slice(eng.addrTaken, func(i, j int) bool { return eng.addrTaken[i].String() < eng.addrTaken[j].String() })
	// named interface types of the module and a few of the standard library
	for _, p := range prog.AllPackages() {
		for _, m := range p.Members {
			if t, ok := m.(*ssa.Type); ok {
				if _, isSig := t.Type().Underlying().(*types.Signature); isSig {
					if n, ok := t.Type().(*types.Named); ok && strings.HasPrefix(p.Pkg.Path(), eng.modPath) {
						eng.ifaceByShort[shortTypeName(n)] = t.Type()
					}
				}
				if _, isI := t.Type().Underlying().(*types.Interface); isI {
					if n, ok := t.Type().(*types.Named); ok {
						short := shortTypeName(n)
						if _, dup := eng.ifaceByShort[short]; !dup || strings.HasPrefix(p.Pkg.Path(), eng.modPath) {
							eng.ifaceByShort[short] = t.Type()
						}
					}
				}
			}
		}
	}
	var extra []string
	matches, _ := filepath.Glob(filepath.Join(verif, "spec", "*.contracts"))
	extra = append(extra, matches...)
	cs, err := loadContracts(repo, extra)
	if err != nil {
		return nil, err
	}
	eng.cs = cs
	eng.loadMonitors()
	return eng, nil
}

// loadMonitors scans the spec library for monitor declarations:  ; monitor mon.rast raster.Rasterizer rast.St
func (eng *Engine) loadMonitors() {
	files, _ := filepath.Glob(filepath.Join(eng.verif, "spec", "*", "*.smt2"))
	for _, f := range files {
		data, err := os.ReadFile(f)
		if err != nil {
			continue
		}
		for _, l := range strings.Split(string(data), "\n") {
			l = strings.TrimSpace(l)
			if strings.HasPrefix(l, "; monitor ") {
				fs := strings.Fields(strings.TrimPrefix(l, "; monitor "))
				if len(fs) == 3 {
					eng.monSorts[fs[0]] = fs[2]
					eng.monIface[fs[0]] = fs[1]
					eng.monMode[fs[0]] = filepath.Base(filepath.Dir(f))
					eng.monLib[fs[0]] = strings.TrimSuffix(filepath.Base(f), ".smt2")
				}
			}
		}
	}
}

func (eng *Engine) fnID(f *ssa.Function) int {
	// thunks of one method exist in several copies: identity is by name
	if id, ok := eng.fnIDs[f.String()]; ok {
		return id
	}
	id := len(eng.fnIDs) + 1
	eng.fnIDs[f.String()] = id
	return id
}

// contractFor returns the (non-iface) contract of fn for the mode, or any-mode trusted/inline mark.
func (eng *Engine) contractFor(fn *ssa.Function, mode Mode) *Contract {
	if fn.Pkg == nil && fn.Object() == nil {
		return nil
	}
	pkg := ""
	if fn.Pkg != nil {
		pkg = fn.Pkg.Pkg.Path()
	} else if fn.Object() != nil && fn.Object().Pkg() != nil {
		pkg = fn.Object().Pkg().Path()
	}
	name := fn.String()
	if fn.Pkg != nil {
		name = fn.RelString(fn.Pkg.Pkg)
	} else if i := strings.LastIndex(name, pkg+"."); i >= 0 {
		name = strings.Replace(name, pkg+".", "", 1)
	}
	list := eng.cs.ByFunc[pkg+"::"+name]
	var inlineMark, other *Contract
	for _, c := range list {
		if c.Inline {
			inlineMark = c
			continue
		}
		if c.Mode == mode.String() {
			return c
		}
		other = c
	}
	if inlineMark == nil && other != nil {
		// only a contract under the other reading exists: its write frame (proved there, and independent of the
		// reading) is used; nothing else is known about the call
		return &Contract{Pkg: other.Pkg, Func: other.Func, Mode: mode.String(), Modifies: other.Modifies, HasMod: other.HasMod,
			Loops: map[int]*LoopSpec{}, File: other.File, Line: other.Line, Uses: nil, Notes: []string{"frame-only view of the " + other.Mode + "-mode contract"}}
	}
	return inlineMark
}

func (eng *Engine) contractsOf(fn *ssa.Function) []*Contract {
	if fn.Pkg == nil {
		return nil
	}
	return eng.cs.ByFunc[fn.Pkg.Pkg.Path()+"::"+fn.RelString(fn.Pkg.Pkg)]
}

func (eng *Engine) ifaceContract(it types.Type, method string, mode Mode) *Contract {
	n, ok := it.(*types.Named)
	if !ok || n.Obj().Pkg() == nil {
		return nil
	}
	var found *Contract
	pure := false
	for _, c := range eng.cs.ByFunc[n.Obj().Pkg().Path()+"::"+n.Obj().Name()+"."+method] {
		if c.Pure {
			pure = true
		}
		if c.Mode == mode.String() {
			found = c
		}
	}
	if found == nil && pure {
		return &Contract{Pure: true, Mode: mode.String(), Loops: map[int]*LoopSpec{}}
	}
	if found != nil && pure {
		cp := *found
		cp.Pure = true
		return &cp
	}
	return found
}

// autoInline: tiny leaf helpers are inlined without a mark.
func (eng *Engine) autoInline(fn *ssa.Function) bool {
	// small loop-free, non-recursive helpers without a contract are inlined (a refactoring that extracts a
	// helper must not need a new contract); anything bigger needs a contract or an explicit inline mark.
	n := 0
	for _, b := range fn.Blocks {
		for _, s := range b.Succs {
			if s.Dominates(b) {
				return false // loop
			}
		}
		for _, ins := range b.Instrs {
			if _, ok := ins.(*ssa.DebugRef); ok {
				continue
			}
			n++
			if c, ok := ins.(ssa.CallInstruction); ok {
				if callee := c.Common().StaticCallee(); callee == fn {
					return false
				}
			}
		}
	}
	return n <= 120
}

func (eng *Engine) findFunc(pkgPath, name string) *ssa.Function {
	if f, ok := eng.funcs[name]; ok {
		return f
	}
	for _, f := range eng.allFuncs {
		if f.Pkg != nil && f.Pkg.Pkg.Path() == pkgPath && f.RelString(f.Pkg.Pkg) == name {
			return f
		}
	}
	// T.m as a function value: the method-expression thunk, else the method itself
	if i := strings.Index(name, "."); i > 0 && !strings.HasPrefix(name, "(") && !strings.Contains(name[i+1:], ".") {
		for _, alt := range []string{"(" + name[:i] + ")." + name[i+1:] + "$thunk", "(" + name[:i] + ")." + name[i+1:], "(*" + name[:i] + ")." + name[i+1:]} {
			for _, f := range eng.allFuncs {
				if f.Pkg != nil && f.Pkg.Pkg.Path() == pkgPath && f.RelString(f.Pkg.Pkg) == alt {
					return f
				}
				if f.Pkg == nil && f.Synthetic != "" && strings.HasSuffix(f.String(), "."+strings.TrimPrefix(alt, "(")) && strings.Contains(f.String(), pkgPath) {
					return f
				}
			}
		}
	}
	// pkgname.Func
	if i := strings.Index(name, "."); i > 0 && !strings.HasPrefix(name, "(") {
		for _, f := range eng.allFuncs {
			if f.Pkg != nil && f.Pkg.Pkg.Name() == name[:i] && f.RelString(f.Pkg.Pkg) == name[i+1:] && strings.HasPrefix(f.Pkg.Pkg.Path(), eng.modPath) {
				return f
			}
		}
	}
	return nil
}

func (eng *Engine) findType(pkgPath, name string) types.Type {
	pk := pkgPath
	tn := name
	if i := strings.LastIndex(name, "."); i > 0 {
		pn := name[:i]
		tn = name[i+1:]
		for path, p := range eng.spkgs {
			if p.Pkg.Name() == pn || path == pn {
				if m, ok := p.Members[tn].(*ssa.Type); ok {
					return m.Type()
				}
			}
		}
		return nil
	}
	if p := eng.spkgs[pk]; p != nil {
		if m, ok := p.Members[tn].(*ssa.Type); ok {
			return m.Type()
		}
	}
	return nil
}

// findGlobal resolves root (and possibly the first step) to a package-level variable.
func (eng *Engine) findGlobal(pkgPath, root string, steps []string) (*ssa.Global, []string) {
	if p := eng.spkgs[pkgPath]; p != nil {
		if g, ok := p.Members[root].(*ssa.Global); ok {
			return g, steps
		}
	}
	if len(steps) > 0 && steps[0][0] == '.' {
		name := steps[0][1:]
		var best *ssa.Global
		for path, p := range eng.spkgs {
			if p.Pkg.Name() == root {
				if g, ok := p.Members[name].(*ssa.Global); ok {
					if best == nil || strings.HasPrefix(path, eng.modPath) {
						best = g
					}
				}
			}
		}
		if best != nil {
			return best, steps[1:]
		}
	}
	return nil, steps
}

func (eng *Engine) memElemByName(name string) types.Type {
	switch name {
	case "mem.u8":
		return types.Typ[types.Uint8]
	case "mem.f32":
		return types.Typ[types.Float32]
	case "mem.f64":
		return types.Typ[types.Float64]
	case "mem.int":
		return types.Typ[types.Int]
	}
	short := strings.TrimPrefix(name, "mem.")
	return eng.findType("", short)
}

// specText returns the spec-library text for a use name in a mode.
func (eng *Engine) specText(use string, mode Mode) (string, error) {
	key := mode.String() + "/" + use
	if t, ok := eng.specCache[key]; ok {
		return t, nil
	}
	path := filepath.Join(eng.verif, "spec", mode.String(), use+".smt2")
	data, err := os.ReadFile(path)
	if err != nil {
		return "", err
	}
	eng.specCache[key] = string(data)
	return string(data), nil
}

// specRequiredTypes parses "; requires-types: a b c" lines.
func specRequiredTypes(text string) []string {
	var out []string
	for _, l := range strings.Split(text, "\n") {
		l = strings.TrimSpace(l)
		if strings.HasPrefix(l, "; requires-types:") {
			out = append(out, strings.Fields(strings.TrimPrefix(l, "; requires-types:"))...)
		}
		if strings.HasPrefix(l, "; requires-ifaces:") {
			for _, f := range strings.Fields(strings.TrimPrefix(l, "; requires-ifaces:")) {
				out = append(out, "iface:"+f)
			}
		}
	}
	return out
}

func specIncludes(text string) []string {
	var out []string
	for _, l := range strings.Split(text, "\n") {
		l = strings.TrimSpace(l)
		if strings.HasPrefix(l, "; include:") {
			out = append(out, strings.Fields(strings.TrimPrefix(l, "; include:"))...)
		}
	}
	return out
}

// globalInit returns the SMT term of a package-level variable's value after package initialisation,
// when the initialiser was evaluated (see initeval.go).
func (eng *Engine) globalInit(vc *VC, g *ssa.Global) (string, bool) {
	return vc.evalGlobalInit(g)
}

// anyFunc returns some function of the module (lemma VCs need a function only for naming).
func (eng *Engine) anyFunc() *ssa.Function {
	for _, f := range eng.allFuncs {
		if f.Pkg != nil && strings.HasPrefix(f.Pkg.Pkg.Path(), eng.modPath) {
			return f
		}
	}
	return eng.allFuncs[0]
}

// outBase is where evidence, replays and VC files go: /verif normally, a scratch directory for selftests.
func (eng *Engine) outBase() string {
	if d := os.Getenv("VERIF_OUT"); d != "" {
		return d
	}
	return eng.verif
}

// inModule reports whether fn belongs to the module under verification (everything else is external).
func (eng *Engine) inModule(fn *ssa.Function) bool {
	if fn.Pkg != nil {
		return strings.HasPrefix(fn.Pkg.Pkg.Path(), eng.modPath)
	}
	if fn.Parent() != nil {
		return eng.inModule(fn.Parent())
	}
	if fn.Synthetic != "" {
		// wrappers / thunks: follow the wrapped method's package
		if o := fn.Object(); o != nil && o.Pkg() != nil {
			return strings.HasPrefix(o.Pkg().Path(), eng.modPath)
		}
		return true
	}
	return false
}

// functypeContract returns the contract attached to a named function type (//@ functype T), if any.
func (eng *Engine) functypeContract(t types.Type) *Contract {
	n, ok := t.(*types.Named)
	if !ok || n.Obj().Pkg() == nil {
		return nil
	}
	if _, isSig := n.Underlying().(*types.Signature); !isSig {
		return nil
	}
	for _, c := range eng.cs.ByFunc[n.Obj().Pkg().Path()+"::functype:"+n.Obj().Name()] {
		return c
	}
	return nil
}

// monActive: the monitor is defined for this VC's reading and its library is part of the VC.
func (vc *VC) monActive(name string) bool {
	return vc.eng.monMode[name] == vc.mode.String() && vc.uses[vc.eng.monLib[name]]
}
