package main

import (
	"bytes"
	"context"
	"fmt"
	"os"
	"os/exec"
	"path/filepath"
	"strings"
	"sync"
	"time"
)

type solverDef struct {
	name string
	args func(file string, secs int) []string
}

var solvers = []solverDef{
	{"z3-5.1.0", func(f string, s int) []string { return []string{"z3-new", "-smt2", fmt.Sprintf("-T:%d", s), f} }},
	{"z3-4.8.12", func(f string, s int) []string { return []string{"z3", "-smt2", fmt.Sprintf("-T:%d", s), f} }},
	{"cvc5-1.0", func(f string, s int) []string {
		return []string{"cvc5", "--lang", "smt2", fmt.Sprintf("--tlimit=%d", s*1000), f}
	}},
}

type solveResult struct {
	status string // sat unsat unknown timeout error
	solver string
	secs   float64
	out    string
}

func runSolver(ctx context.Context, sd solverDef, file string, secs int) solveResult {
	start := time.Now()
	args := sd.args(file, secs)
	cctx, cancel := context.WithTimeout(ctx, time.Duration(secs+5)*time.Second)
	defer cancel()
	cmd := exec.CommandContext(cctx, args[0], args[1:]...)
	var out bytes.Buffer
	cmd.Stdout = &out
	cmd.Stderr = &out
	cmd.Run()
	el := time.Since(start).Seconds()
	text := out.String()
	first := ""
	for _, l := range strings.Split(text, "\n") {
		l = strings.TrimSpace(l)
		if l == "" {
			continue
		}
		first = l
		break
	}
	st := "unknown"
	switch {
	case first == "unsat":
		st = "unsat"
	case first == "sat":
		st = "sat"
	case first == "timeout" || strings.Contains(first, "timeout") || strings.Contains(text, "interrupted by timeout"):
		st = "timeout"
	case strings.HasPrefix(first, "(error") || strings.Contains(first, "rror"):
		st = "error"
	case cctx.Err() != nil:
		st = "timeout"
	}
	if len(text) > 20000 {
		text = text[:20000] + "\n...[truncated]"
	}
	return solveResult{status: st, solver: sd.name, secs: el, out: text}
}

// discharge decides one obligation: quick single-solver attempt, then a race of all solvers.
func discharge(o *Obl, dir string, timeout int) {
	if o.Failed != "" {
		o.Result = "not-generated"
		o.Output = o.Failed
		return
	}
	text, err := o.smtText(false)
	if err != nil {
		o.Result = "not-generated"
		o.Output = err.Error()
		return
	}
	if len(text) > maxVCBytes {
		o.Result = "not-generated"
		o.Output = fmt.Sprintf("vc-too-large: %d bytes", len(text))
		return
	}
	file := filepath.Join(dir, sanitizeFile(o.Name)+".smt2")
	os.MkdirAll(filepath.Dir(file), 0o755)
	if err := os.WriteFile(file, []byte(text), 0o644); err != nil {
		o.Result = "not-generated"
		o.Output = err.Error()
		return
	}
	o.SMTFile = file
	start := time.Now()
	if o.Timeout > 0 && o.Timeout > timeout {
		timeout = o.Timeout
	}
	if o.ExpectSat && timeout > 8 {
		timeout = 8 // satisfiability (vacuity) checks: an answer within seconds or "inconclusive"
	}
	// cheapest attempt: the goal may follow from the definitions alone (no assumptions): sound, and it avoids
	// dragging non-linear or quantified context into trivial goals
	if !o.ExpectSat && !o.Isolated && o.Raw == "" {
		o.Isolated = true
		itext, ierr := o.smtText(false)
		o.Isolated = false
		if ierr == nil {
			ifile := strings.TrimSuffix(file, ".smt2") + ".noassume.smt2"
			if os.WriteFile(ifile, []byte(itext), 0o644) == nil {
				ir := runSolver(context.Background(), solvers[0], ifile, 2)
				if ir.status == "unsat" {
					o.Seconds = time.Since(start).Seconds()
					o.Solver = ir.solver + " (definitions only)"
					o.Result = "unsat"
					os.Remove(ifile)
					return
				}
				os.Remove(ifile)
			}
		}
	}
	// fast path
	quick := 4
	if quick > timeout {
		quick = timeout
	}
	r := runSolver(context.Background(), solvers[0], file, quick)
	if r.status != "sat" && r.status != "unsat" && timeout > quick {
		// real-number reading: a pure-arithmetic weakening first (z3's complete non-linear procedure only runs on those)
		if !o.ExpectSat && !o.Isolated && o.Raw == "" && timeout > 8 {
			for _, realOnly := range []bool{true, false} {
				ptext := o.pureText(realOnly)
				if ptext == "" {
					continue
				}
				pfile := strings.TrimSuffix(file, ".smt2") + map[bool]string{true: ".purereal.smt2", false: ".pure.smt2"}[realOnly]
				if os.WriteFile(pfile, []byte(ptext), 0o644) == nil {
					pr := runSolver(context.Background(), solvers[0], pfile, 8)
					if pr.status == "unsat" {
						os.Remove(pfile)
						o.Seconds = time.Since(start).Seconds()
						o.Solver = pr.solver + " (pure arithmetic weakening)"
						o.Result = "unsat"
						return
					}
					if os.Getenv("GOVC_KEEP_PURE") == "" {
						os.Remove(pfile)
					}
				}
			}
		}
	}
	if r.status != "sat" && r.status != "unsat" && timeout > quick {
		ctx, cancel := context.WithCancel(context.Background())
		// the race: the full VC on every solver and, next to it, the VC with only the assumptions that mention something
		// the goal depends on (fewer hypotheses: its unsat carries over, any other answer of it is ignored)
		n := len(solvers)
		sfile := ""
		if !o.ExpectSat && !o.Isolated && o.Raw == "" {
			o.Sliced = true
			stext, serr := o.smtText(false)
			o.Sliced = false
			if serr == nil && len(stext) < len(text) {
				sfile = strings.TrimSuffix(file, ".smt2") + ".sliced.smt2"
				if os.WriteFile(sfile, []byte(stext), 0o644) != nil {
					sfile = ""
				}
			}
		}
		if sfile != "" {
			n += 2
		}
		ch := make(chan solveResult, n)
		for _, sd := range solvers {
			go func(sd solverDef) { ch <- runSolver(ctx, sd, file, timeout) }(sd)
		}
		if sfile != "" {
			for _, sd := range []solverDef{solvers[0], solvers[len(solvers)-1]} {
				go func(sd solverDef) {
					x := runSolver(ctx, sd, sfile, timeout)
					if x.status == "unsat" {
						x.solver += " (sliced assumptions)"
					} else {
						x.status, x.solver = "ignored", x.solver+" (sliced assumptions)"
					}
					ch <- x
				}(sd)
			}
		}
		var all []solveResult
		for k := 0; k < n; k++ {
			x := <-ch
			if x.status == "ignored" {
				continue
			}
			all = append(all, x)
			if x.status == "sat" || x.status == "unsat" {
				r = x
				break
			}
		}
		cancel()
		if sfile != "" && os.Getenv("GOVC_KEEP_PURE") == "" {
			defer os.Remove(sfile)
		}
		if r.status != "sat" && r.status != "unsat" {
			var b strings.Builder
			best := "unknown"
			for _, x := range all {
				fmt.Fprintf(&b, "[%s %.1fs] %s: %s\n", x.solver, x.secs, x.status, firstLines(x.out, 3))
				if x.status == "timeout" {
					best = "timeout"
				}
			}
			r = solveResult{status: best, solver: "all", out: b.String()}
		}
	}
	o.Seconds = time.Since(start).Seconds()
	o.Solver = r.solver
	o.Result = r.status
	o.Output = firstLines(r.out, 6)
	if r.status == "sat" && !o.ExpectSat {
		// fetch a model
		mtext, _ := o.smtText(true)
		mfile := strings.TrimSuffix(file, ".smt2") + ".model.smt2"
		os.WriteFile(mfile, []byte(mtext), 0o644)
		sd := solvers[0]
		for _, s := range solvers {
			if s.name == r.solver {
				sd = s
			}
		}
		mr := runSolver(context.Background(), sd, mfile, timeout)
		o.Model = mr.out
	}
}

func firstLines(s string, n int) string {
	ls := strings.Split(strings.TrimSpace(s), "\n")
	if len(ls) > n {
		ls = ls[:n]
	}
	return strings.Join(ls, "\n")
}

func sanitizeFile(s string) string {
	r := strings.NewReplacer("/", "__", "(", "", ")", "", "*", "", " ", "_", "$", "_", "#", "_", ":", "_", ",", "_", "@", "_at_", "=", "-eq-", "[", "_", "]", "_")
	return r.Replace(s)
}

const maxVCBytes = 4 << 20

// dischargeAll runs every obligation with bounded parallelism.
func dischargeAll(obls []*Obl, dir string, timeout int, par int) {
	var wg sync.WaitGroup
	sem := make(chan struct{}, par)
	for _, o := range obls {
		wg.Add(1)
		sem <- struct{}{}
		go func(o *Obl) {
			defer wg.Done()
			defer func() { <-sem }()
			discharge(o, dir, timeout)
		}(o)
	}
	wg.Wait()
}

// ok reports whether the obligation counts as discharged.
func (o *Obl) ok() bool {
	if o.Failed != "" {
		return false
	}
	if o.ExpectSat {
		return o.Result == "sat" || o.Result == "unknown" || o.Result == "timeout"
	}
	return o.Result == "unsat"
}
