package main

import (
	"fmt"
	"go/types"
	"sort"
	"strings"

	"golang.org/x/tools/go/ssa"
)

// Root identifies where a pointer points, syntactically.
type Root struct {
	kind  string // param, freevar, global, alloc, slice, unknown
	index int    // param / freevar index
	glob  *ssa.Global
	alloc *ssa.Alloc
	elem  types.Type // slice element type (kind == slice)
	path  []int      // constant field path from the root (stops at the first array index)
	val   ssa.Value  // defining value of the root
}

func (r Root) String() string {
	p := ""
	for _, f := range r.path {
		p += fmt.Sprintf(".%d", f)
	}
	switch r.kind {
	case "param":
		return fmt.Sprintf("param%d%s", r.index, p)
	case "freevar":
		return fmt.Sprintf("freevar%d%s", r.index, p)
	case "global":
		return "global:" + r.glob.String() + p
	case "alloc":
		return "alloc:" + r.alloc.Name() + p
	case "slice":
		return "mem:" + r.elem.String()
	}
	return "unknown"
}

// rootOf resolves a pointer-typed SSA value to its root, following address arithmetic only.
func rootOf(v ssa.Value) Root {
	switch x := v.(type) {
	case *ssa.Parameter:
		for i, p := range x.Parent().Params {
			if p == x {
				return Root{kind: "param", index: i, val: v}
			}
		}
	case *ssa.FreeVar:
		for i, p := range x.Parent().FreeVars {
			if p == x {
				return Root{kind: "freevar", index: i, val: v}
			}
		}
	case *ssa.Global:
		return Root{kind: "global", glob: x, val: v}
	case *ssa.Alloc:
		return Root{kind: "alloc", alloc: x, val: v}
	case *ssa.FieldAddr:
		r := rootOf(x.X)
		if r.kind == "unknown" || r.kind == "slice" {
			return r
		}
		if r.path != nil && len(r.path) > 0 && r.path[len(r.path)-1] == -1 {
			return r
		}
		r.path = append(append([]int{}, r.path...), x.Field)
		return r
	case *ssa.IndexAddr:
		if sl, ok := x.X.Type().Underlying().(*types.Slice); ok {
			if r, ok := sliceRoot(x.X); ok {
				r.elem = sl.Elem()
				return r
			}
			return Root{kind: "slice", elem: sl.Elem(), val: x.X}
		}
		r := rootOf(x.X)
		if r.kind == "unknown" || r.kind == "slice" {
			return r
		}
		if len(r.path) == 0 || r.path[len(r.path)-1] != -1 {
			r.path = append(append([]int{}, r.path...), -1) // -1 terminates the constant path
		}
		return r
	case *ssa.ChangeType:
		return rootOf(x.X)
	case *ssa.UnOp:
		// pointer loaded from a cell: closure-captured receiver (**T free variable), resolved one level.
		if x.Op.String() == "*" {
			if al, ok := x.X.(*ssa.Alloc); ok {
				if held := uniqueStoreTo(al); held != nil {
					return rootOf(held)
				}
			}
			if fv, ok := x.X.(*ssa.FreeVar); ok {
				for i, p := range fv.Parent().FreeVars {
					if p == fv {
						return Root{kind: "freevar", index: i, val: v, path: []int{-2}} // -2: through the captured cell
					}
				}
			}
		}
	}
	return Root{kind: "unknown", val: v}
}

// sliceRoot resolves a slice value to the addressable array it was carved from, or to the slice parameter it is.
func sliceRoot(v ssa.Value) (Root, bool) {
	switch x := v.(type) {
	case *ssa.Slice:
		if _, isPtr := x.X.Type().Underlying().(*types.Pointer); isPtr {
			r := rootOf(x.X)
			if r.kind == "unknown" || r.kind == "slice" {
				return r, false
			}
			if len(r.path) == 0 || r.path[len(r.path)-1] != -1 {
				r.path = append(append([]int{}, r.path...), -1)
			}
			return r, true
		}
		return sliceRoot(x.X)
	case *ssa.ChangeType:
		return sliceRoot(x.X)
	case *ssa.Parameter:
		for i, p := range x.Parent().Params {
			if p == x {
				return Root{kind: "param", index: i, val: v, path: []int{-3}}, true
			}
		}
	}
	return Root{}, false
}

// Effects summarises what a function may write.
type Effects struct {
	Roots   map[string]Root // written roots (param/freevar/global/alloc-escaping), by String()
	Mems    map[string]types.Type
	Ifaces  map[string]bool // interface types invoked (events appended)
	Unknown []string        // reasons the summary is incomplete
	Calls   map[*ssa.Function]bool
	Extern  map[string]bool // external functions called
	Allocs  bool
	KeepAllocs bool // loop summaries: stores to local objects count
}

func newEffects() *Effects {
	return &Effects{Roots: map[string]Root{}, Mems: map[string]types.Type{}, Ifaces: map[string]bool{}, Calls: map[*ssa.Function]bool{}, Extern: map[string]bool{}}
}

func (e *Effects) addRoot(r Root) {
	if len(r.path) > 0 && r.path[0] == -3 && r.elem != nil && r.kind == "param" {
		// elements of a slice parameter: kept symbolic for callers (mapCallee), whole memory otherwise
		e.Roots[r.String()] = r
		return
	}
	switch r.kind {
	case "unknown":
		e.Unknown = append(e.Unknown, "store through unresolved pointer "+r.val.Name())
	case "slice":
		e.Mems[r.elem.String()] = r.elem
	case "alloc":
		// local object: not visible to the caller unless it escapes; ignored in function summaries. A loop summary
		// keeps it: a local that exists before the loop and is stored to inside it changes from iteration to iteration.
		if e.KeepAllocs {
			e.Roots[r.String()] = r
		}
	default:
		e.Roots[r.String()] = r
	}
}

// effectsOf computes (memoised) the write effects of fn, transitively through static calls.
func (eng *Engine) effectsOf(fn *ssa.Function) *Effects {
	if e, ok := eng.effects[fn]; ok {
		return e
	}
	e := newEffects()
	eng.effects[fn] = e // breaks recursion (conservative: recursive call contributes what is known so far)
	if len(fn.Blocks) == 0 {
		e.Extern[fn.String()] = true
		return e
	}
	for _, b := range fn.Blocks {
		eng.scanBlock(fn, b, e)
	}
	return e
}

func (eng *Engine) scanBlock(fn *ssa.Function, b *ssa.BasicBlock, e *Effects) {
	for _, ins := range b.Instrs {
		switch x := ins.(type) {
		case *ssa.Store:
			e.addRoot(rootOf(x.Addr))
		case *ssa.MapUpdate:
			e.Unknown = append(e.Unknown, "map update")
		case *ssa.Send, *ssa.Go, *ssa.Defer, *ssa.Select:
			e.Unknown = append(e.Unknown, fmt.Sprintf("%T", x))
		case *ssa.MakeSlice:
			e.Allocs = true
		case *ssa.Alloc:
			// an array that becomes the backing store of a slice (slice literal, varargs, make with a constant size, a
			// sliced local): the model gives it a region, so the region counter moves
			if _, isArr := x.Type().(*types.Pointer).Elem().Underlying().(*types.Array); isArr {
				e.Allocs = true
			}
		case ssa.CallInstruction:
			eng.scanCall(fn, x, e)
		}
	}
}

func (eng *Engine) scanCall(fn *ssa.Function, ci ssa.CallInstruction, e *Effects) {
	c := ci.Common()
	if c.IsInvoke() {
		if ic := eng.ifaceContract(c.Value.Type(), c.Method.Name(), Bits); ic != nil && ic.Pure {
			return // observers deliver no event
		}
		if n, ok := c.Value.Type().(*types.Named); ok {
			e.Ifaces[shortTypeName(n)] = true
		} else {
			e.Ifaces[c.Value.Type().String()] = true
		}
		return
	}
	switch callee := c.Value.(type) {
	case *ssa.Builtin:
		switch callee.Name() {
		case "append":
			if sl, ok := c.Args[0].Type().Underlying().(*types.Slice); ok {
				e.Mems[sl.Elem().String()] = sl.Elem()
			}
			e.Allocs = true
		case "copy":
			if sl, ok := c.Args[0].Type().Underlying().(*types.Slice); ok {
				e.Mems[sl.Elem().String()] = sl.Elem()
			}
		}
		return
	case *ssa.Function:
		eng.mapCallee(callee, c.Args, nil, e)
		return
	case *ssa.MakeClosure:
		eng.mapCallee(callee.Fn.(*ssa.Function), c.Args, callee.Bindings, e)
		return
	}
	if fc := eng.functypeContract(c.Value.Type()); fc != nil {
		// callback with a contract: its calls are events; it writes only what the contract lists
		if !fc.Pure {
			e.Ifaces[ifaceShort(c.Value.Type())] = true
		}
		for _, m := range fc.Modifies {
			var k int
			if n, _ := fmt.Sscanf(m, "*arg%d", &k); n == 1 && k < len(c.Args) {
				e.addRoot(rootOf(c.Args[k]))
			}
		}
		return
	}
	// dynamic call through a function value: all address-taken functions of that signature
	cands := eng.candidates(c.Value.Type())
	if len(cands) == 0 {
		e.Unknown = append(e.Unknown, "dynamic call with no known candidates: "+c.Value.Type().String())
		return
	}
	for _, cand := range cands {
		eng.mapCallee(cand, c.Args, nil, e)
	}
}

// mapCallee maps the callee's effects into the caller's terms.
func (eng *Engine) mapCallee(callee *ssa.Function, args []ssa.Value, bindings []ssa.Value, e *Effects) {
	e.Calls[callee] = true
	if len(callee.Blocks) == 0 || !eng.inModule(callee) {
		e.Extern[callee.String()] = true
		for _, a := range args {
			if _, ok := a.Type().Underlying().(*types.Pointer); ok {
				e.addRoot(rootOf(a))
			}
		}
		return
	}
	ce := eng.effectsOf(callee)
	if len(callee.Blocks) == 0 {
		e.Extern[callee.String()] = true
		// external: assumed to write only through its pointer arguments
		for _, a := range args {
			if _, ok := a.Type().Underlying().(*types.Pointer); ok {
				e.addRoot(rootOf(a))
			}
		}
		return
	}
	for k := range ce.Extern {
		e.Extern[k] = true
	}
	for k, t := range ce.Mems {
		e.Mems[k] = t
	}
	for k := range ce.Ifaces {
		e.Ifaces[k] = true
	}
	for f := range ce.Calls {
		e.Calls[f] = true
	}
	e.Unknown = append(e.Unknown, ce.Unknown...)
	if ce.Allocs {
		e.Allocs = true
	}
	for _, r := range ce.Roots {
		switch r.kind {
		case "global":
			e.Roots[r.String()] = r
		case "param":
			if len(r.path) > 0 && r.path[0] == -3 {
				if r.index < len(args) {
					if ar, ok := sliceRoot(args[r.index]); ok {
						ar.elem = r.elem
						e.addRoot(ar)
						continue
					}
				}
				if r.elem != nil {
					e.Mems[r.elem.String()] = r.elem
				}
				continue
			}
			if r.index < len(args) {
				ar := rootOf(args[r.index])
				if ar.kind != "unknown" && ar.kind != "slice" {
					if len(ar.path) == 0 || ar.path[len(ar.path)-1] >= 0 {
						ar.path = append(append([]int{}, ar.path...), r.path...)
					}
				}
				e.addRoot(ar)
			}
		case "freevar":
			if bindings != nil && r.index < len(bindings) {
				// the binding is the address of the captured variable
				br := rootOf(bindings[r.index])
				if len(r.path) > 0 && r.path[0] == -2 {
					// write through the pointer held in the captured cell: find what the cell holds
					if al, ok := bindings[r.index].(*ssa.Alloc); ok {
						if held := uniqueStoreTo(al); held != nil {
							hr := rootOf(held)
							e.addRoot(hr)
							continue
						}
					}
					e.Unknown = append(e.Unknown, "closure writes through captured pointer")
					continue
				}
				e.addRoot(br)
			} else {
				e.Roots[r.String()] = r
			}
		}
	}
}

// uniqueStoreTo returns the single value ever stored to the alloc (nil if none or several).
func uniqueStoreTo(al *ssa.Alloc) ssa.Value {
	var v ssa.Value
	n := 0
	for _, ref := range *al.Referrers() {
		if st, ok := ref.(*ssa.Store); ok && st.Addr == al {
			v = st.Val
			n++
		}
	}
	if n == 1 {
		return v
	}
	return nil
}

// candidates returns the address-taken functions whose signature is identical to t.
func (eng *Engine) candidates(t types.Type) []*ssa.Function {
	sig, ok := t.Underlying().(*types.Signature)
	if !ok {
		return nil
	}
	key := sig.String()
	if c, ok := eng.candCache[key]; ok {
		return c
	}
	var out []*ssa.Function
	for _, f := range eng.addrTaken {
		if types.Identical(f.Signature, sig) || sigMatchesThunk(f, sig) {
			out = append(out, f)
		}
	}
	sort.Slice(out, func(i, j int) bool { return out[i].String() < out[j].String() })
	eng.candCache[key] = out
	return out
}

func sigMatchesThunk(f *ssa.Function, sig *types.Signature) bool {
	// method used as a function value with the receiver as first parameter
	if f.Signature.Recv() == nil {
		return false
	}
	if sig.Params().Len() != f.Signature.Params().Len()+1 {
		return false
	}
	if !types.Identical(sig.Params().At(0).Type(), f.Signature.Recv().Type()) {
		return false
	}
	for i := 0; i < f.Signature.Params().Len(); i++ {
		if !types.Identical(sig.Params().At(i+1).Type(), f.Signature.Params().At(i).Type()) {
			return false
		}
	}
	return types.Identical(sig.Results(), f.Signature.Results())
}

func (e *Effects) summary() string {
	var parts []string
	for k := range e.Roots {
		parts = append(parts, k)
	}
	for k := range e.Mems {
		parts = append(parts, "mem:"+k)
	}
	for k := range e.Ifaces {
		parts = append(parts, "iface:"+k)
	}
	sort.Strings(parts)
	return strings.Join(parts, " ")
}
