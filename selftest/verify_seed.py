#!/usr/bin/env python3
"""verify_seed.py <seedout-dir> ...: confirm a seeded defect independently in a scratch worktree and, if it holds up,
store it as /verif/seeded/<id>/ (patch.diff, demo test, meta.json with what was run)."""
import json, os, shutil, subprocess, sys, tempfile, glob
ENV = dict(os.environ, GOFLAGS="-mod=mod", GOPROXY="off", GOSUMDB="off", GOTOOLCHAIN="local")
def sh(cmd, cwd):
    r = subprocess.run(cmd, shell=True, cwd=cwd, env=ENV, capture_output=True, text=True)
    return r.returncode, (r.stdout + r.stderr)[-1500:]
for d in sys.argv[1:]:
    d = d.rstrip("/")
    meta = json.load(open(os.path.join(d, "meta.json")))
    sid = meta["id"]
    tests = [f for f in glob.glob(os.path.join(d, "*_test.go"))]
    scratch = tempfile.mkdtemp(prefix="seedverify-", dir="/tmp")
    wt = os.path.join(scratch, "repo")
    try:
        subprocess.run(["git", "-C", "/repo", "worktree", "add", "--detach", "-f", wt, "HEAD"], check=True, capture_output=True)
        # where does the demo go? same package dir as named in meta / guess from package clause + files_changed
        demo_targets = []
        for t in tests:
            pkgline = [l for l in open(t) if l.startswith("package ")][0].split()[1]
            cands = []
            for root, dirs, files in os.walk(wt):
                if ".git" in root: continue
                for f in files:
                    if f.endswith(".go") and not f.endswith("_test.go") and f != "zz_contracts_verif.go":
                        first = [l for l in open(os.path.join(root, f)) if l.startswith("package ")]
                        if first and first[0].split()[1] == pkgline.replace("_test", ""):
                            cands.append(root)
            hint = meta.get("demo", "") + " ".join(meta.get("files_changed", []))
            cands = sorted(set(cands), key=lambda c: (os.path.relpath(c, wt) not in hint and os.path.relpath(c, wt) != ".", len(c)))
            # prefer a directory mentioned in the demo text
            best = None
            for c in cands:
                rel = os.path.relpath(c, wt)
                if rel != "." and (rel + "/") in meta.get("demo", "") or ("./" + rel) in meta.get("demo", ""):
                    best = c; break
            if best is None:
                best = cands[0] if cands else wt
            demo_targets.append((t, best))
        rc, out = sh(f"git apply --whitespace=nowarn {d}/patch.diff", wt)
        if rc != 0:
            print(sid, "REJECT patch does not apply:", out[-300:]); continue
        rc, out = sh("go build ./... && go test -vet=off -count=1 ./...", wt)
        if rc != 0:
            print(sid, "REJECT suite fails with the patch:", out[-300:]); continue
        for t, tgt in demo_targets:
            shutil.copy(t, tgt)
        pk = " ".join(sorted(set("./" + os.path.relpath(tgt, wt) for _, tgt in demo_targets)))
        rc_with, out_with = sh(f"go test -vet=off -count=1 {pk}", wt)
        sh(f"git apply -R --whitespace=nowarn {d}/patch.diff", wt)
        rc_without, out_without = sh(f"go test -vet=off -count=1 {pk}", wt)
        if rc_with == 0 or rc_without != 0:
            print(sid, f"REJECT demo: with patch rc={rc_with}, without rc={rc_without}", out_without[-300:] if rc_without else ""); continue
        dst = os.path.join("/verif/seeded", sid)
        os.makedirs(dst, exist_ok=True)
        shutil.copy(os.path.join(d, "patch.diff"), dst)
        for t in tests:
            shutil.copy(t, os.path.join(dst, os.path.basename(t) + ".txt"))  # .txt: not part of any Go package under /verif
        meta["verified_by_me"] = {"suite_passes_with_patch": True, "demo_fails_with_patch": True, "demo_passes_without_patch": True,
                                  "commands": ["git apply patch.diff", "go build ./... && go test -vet=off -count=1 ./...", f"go test -vet=off -count=1 {pk}  (demo copied in)", "git apply -R patch.diff", f"go test -vet=off -count=1 {pk}"],
                                  "base_commit": subprocess.run(["git", "-C", "/repo", "rev-parse", "--short", "HEAD"], capture_output=True, text=True).stdout.strip()}
        json.dump(meta, open(os.path.join(dst, "meta.json"), "w"), indent=1)
        print(sid, "ok")
    finally:
        subprocess.run(["git", "-C", "/repo", "worktree", "remove", "--force", wt], capture_output=True)
        shutil.rmtree(scratch, ignore_errors=True)
        subprocess.run(["git", "-C", "/repo", "worktree", "prune"], capture_output=True)
