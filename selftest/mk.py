#!/usr/bin/env python3
"""mk.py <name> <property> <expect-substring|-> <file> <old> <new> [<file> <old> <new> ...]  -> selftest/mutants/<name>.patch
Creates a mutant patch by exact string replacement in /repo (reverted immediately). kind via env KIND."""
import subprocess, sys, os
name, prop, expect = sys.argv[1:4]
rest = sys.argv[4:]
files = []
for i in range(0, len(rest), 3):
    f, old, new = rest[i:i+3]
    p = os.path.join("/repo", f)
    s = open(p).read()
    if s.count(old) != 1:
        print(f"{f}: pattern occurs {s.count(old)} times", file=sys.stderr); 
        subprocess.run(["git", "-C", "/repo", "checkout", "--"] + files)
        sys.exit(1)
    open(p, "w").write(s.replace(old, new))
    files.append(f)
diff = subprocess.run(["git", "-C", "/repo", "diff", "--"] + files, capture_output=True, text=True).stdout
subprocess.run(["git", "-C", "/repo", "checkout", "--"] + files, check=True)
hdr = f"# property: {prop}\n"
if expect != "-":
    hdr += f"# expect: {expect}\n"
if os.environ.get("KIND"):
    hdr += f"# kind: {os.environ['KIND']}\n"
open(f"/verif/selftest/mutants/{name}.patch", "w").write(hdr + diff)
print("wrote", name)
