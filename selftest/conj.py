#!/usr/bin/env python3
"""conj.py <file.smt2>: for a goal (assert (not (=> PC (and c1 c2 ...)))) test each conjunct separately."""
import sys, subprocess, re, tempfile, os
text = open(sys.argv[1]).read()
i = text.rindex("(assert (not (=> ")
head, goal = text[:i], text[i:]
body = goal[len("(assert (not (=> "):]
# split PC and the and-list
def split_top(s):
    out, d, cur = [], 0, ""
    for ch in s:
        if ch == "(": d += 1
        if ch == ")": d -= 1
        if d < 0: break
        if ch == " " and d == 0:
            if cur: out.append(cur); cur = ""
        else: cur += ch
    if cur: out.append(cur)
    return out
parts = split_top(body)
pc, g = parts[0], parts[1]
assert g.startswith("(and ")
conj = split_top(g[5:-1])
for c in conj:
    f = tempfile.NamedTemporaryFile("w", suffix=".smt2", delete=False)
    f.write(head + f"(assert (not (=> {pc} {c})))\n(check-sat)\n"); f.close()
    r = subprocess.run(["z3-new", "-smt2", "-T:20", f.name], capture_output=True, text=True).stdout.split("\n")[0]
    print(r, c[:150]); os.unlink(f.name)
