#!/usr/bin/env python3
"""Must-fail / must-pass corpus runner.

Each /verif/selftest/mutants/*.patch is applied to a scratch git worktree of /repo (outside /repo and
/verif, removed afterwards); the mutated tree must still build and pass the repository's tests, and the
named property's check must exit 1 (kind must-fail, default) or 0 (kind must-pass).
Header lines of a patch file:  # property: C08   # expect: <substring of a failed obligation>   # kind: must-pass   # tier: thorough
usage: run.py [--jobs N] [filter ...]
"""
import glob, os, re, subprocess, sys, tempfile, shutil, json, concurrent.futures as cf

VERIF = "/verif"
REPO = os.environ.get("VERIF_REPO", "/repo")
ENV = dict(os.environ, GOFLAGS="-mod=mod", GOPROXY="off", GOSUMDB="off", GOTOOLCHAIN="local")

def run_one(patch):
    meta = {"property": None, "expect": None, "kind": "must-fail", "tests": "yes", "tier": "quick"}
    if os.path.basename(patch) == "patch.diff":
        mj = json.load(open(os.path.join(os.path.dirname(patch), "meta.json")))
        meta["property"] = mj["property"]
    for line in open(patch):
        m = re.match(r"#\s*(\w+):\s*(.*)", line)
        if m and m.group(1) in meta:
            meta[m.group(1)] = m.group(2).strip()
    name = os.path.basename(patch)
    if name == "patch.diff":
        name = "seeded/" + os.path.basename(os.path.dirname(patch))
    suite = ""
    scratch = tempfile.mkdtemp(prefix="ivg-mut-", dir="/tmp")
    wt = os.path.join(scratch, "repo")
    out = os.path.join(scratch, "out")
    try:
        subprocess.run(["git", "-C", REPO, "worktree", "add", "--detach", "-f", wt, "HEAD"], check=True, capture_output=True)
        r = subprocess.run(["git", "-C", wt, "apply", "--whitespace=nowarn", patch], capture_output=True, text=True)
        if r.returncode != 0:
            return name, "BROKEN", "patch does not apply: " + r.stderr.strip()[:300]
        if meta["tests"] != "skip":
            r = subprocess.run("go build ./... && go test -vet=off -count=1 ./...", shell=True, cwd=wt, env=ENV, capture_output=True, text=True)
            if r.returncode != 0:
                b = subprocess.run("go build ./...", shell=True, cwd=wt, env=ENV, capture_output=True, text=True)
                if b.returncode != 0:
                    return name, "BROKEN", "mutant does not build: " + b.stderr[-300:]
                suite = " [also killed by the test suite]"
        env = dict(ENV, VERIF_REPO=wt, VERIF_OUT=out)
        r = subprocess.run([os.path.join(VERIF, "bin", "govc"), "check", "--tier", meta["tier"], meta["property"]], env=env, capture_output=True, text=True, cwd=VERIF)
        viol = [l for l in r.stdout.splitlines() if l.startswith("VIOLATION") or l.startswith("failed obligation")]
        viol.sort(key=lambda l: (not l.startswith("VIOLATION"), "(timeout)" in l[:200] or "(unknown)" in l[:200]))  # decisive failures first
        viol = [l[:260] for l in viol]
        if meta["kind"] == "must-pass":
            ok = r.returncode == 0
            return name, "ok" if ok else "FALSE-ALARM", "; ".join(viol)[:400]
        ok = r.returncode == 1 and any(l.startswith("VIOLATION") for l in viol)
        if ok and meta["expect"]:
            ok = any(meta["expect"] in l for l in viol)
            if not ok:
                return name, "WRONG-OBLIGATION", "; ".join(viol)[:600]
        return name, "ok" if ok else "SURVIVED", (suite + " " + ("; ".join(viol) or r.stdout[-300:] + r.stderr[-300:]))[:1500]
    finally:
        subprocess.run(["git", "-C", REPO, "worktree", "remove", "--force", wt], capture_output=True)
        shutil.rmtree(scratch, ignore_errors=True)
        subprocess.run(["git", "-C", REPO, "worktree", "prune"], capture_output=True)

def main():
    args = sys.argv[1:]
    jobs = 4
    if args[:1] == ["--jobs"]:
        jobs = int(args[1]); args = args[2:]
    patches = sorted(glob.glob(os.path.join(VERIF, "selftest", "mutants", "*.patch"))) + sorted(glob.glob(os.path.join(VERIF, "seeded", "*", "patch.diff")))
    if args:
        patches = [p for p in patches if any(a in p for a in args)]
    bad = 0
    with cf.ThreadPoolExecutor(max_workers=jobs) as ex:
        for name, status, detail in ex.map(run_one, patches):
            print(f"{status:16s} {name}  {detail}")
            if status != "ok":
                bad += 1
    print(f"{len(patches)} mutants, {bad} problems")
    sys.exit(1 if bad else 0)

if __name__ == "__main__":
    main()
